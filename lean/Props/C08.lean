/-
C08 — reported statistics obey their defining formulas.
Property theorems only (helper lemmas in Proofs/Stats.lean, Proofs/StatsTables.lean).

The pseudo-inverse is produced by LAPACK: it enters as a *relation* (`Stats.IsPinv`, the four
Penrose equations).  `pinv_unique` shows the relation determines the matrix, so every
downstream statement is about one well-defined report.  Real-valued statements are about the
`ℝ` instance of the very definitions the driver runs on `Float`.
-/
import Model.Stats
import Proofs.Stats
import Proofs.StatsTables
import Model.StatsReports
import Proofs.StatsReports
import Model.StatsSources
import Proofs.StatsSources
import Model.StatsCompile
import Proofs.StatsCompile

open Stats

namespace C08

/-! ### the variance-covariance matrix: (pseudo-)inverse of minus the Hessian -/

/-- **The relational step is deterministic**: two matrices that both satisfy the Penrose
equations for `A` agree on the whole n×n block (every n, every A — singular or not). -/
theorem pinv_unique (n : Nat) (A X Y : Mat ℝ) (hX : IsPinv n A X) (hY : IsPinv n A Y) :
    EqOn n X Y := by
  rw [isPinv_iff] at hX hY
  rw [eqOn_iff]
  exact MPinv.unique hX hY

/-- … hence equal as lists of rows when both are n×n arrays. -/
theorem pinv_unique_list (n : Nat) (A X Y : Mat ℝ) (hX : IsPinv n A X) (hY : IsPinv n A Y)
    (sX : Shape n X) (sY : Shape n Y) : X = Y :=
  eq_of_shape n X Y sX sY (pinv_unique n A X Y hX hY)

/-- A true inverse is a pseudo-inverse (the regular, negative-definite case). -/
theorem pinv_inverse (n : Nat) (A X : Mat ℝ) (h : EqOn n (mmul n A X) (ident n)) : IsPinv n A X := by
  rw [isPinv_iff]
  rw [eqOn_iff, toM_mmul, toM_ident] at h
  exact MPinv.of_inverse h

/-- The code computes `−pinv(H)`; the statement says `pinv(−H)`: the same matrix. -/
theorem pinv_neg (n : Nat) (H P : Mat ℝ) (h : IsPinv n H P) : IsPinv n (mneg n H) (mneg n P) := by
  rw [isPinv_iff] at *
  rw [toM_mneg, toM_mneg]
  exact h.neg

/-- The variance-covariance matrix of a symmetric Hessian is symmetric. -/
theorem varcovar_symm (n : Nat) (A X : Mat ℝ) (hA : IsSymm n A) (h : IsPinv n A X) : IsSymm n X := by
  rw [isSymm_iff] at *
  rw [isPinv_iff] at h
  exact h.symm_of_symm hA

/-- **The report is a function of the raw outcome**: whatever LAPACK returns, if two n×n
matrices `V₁`, `V₂` both qualify as `varCovar` (i.e. `−V` is a pseudo-inverse of the
Hessian), the whole report built from them — robust matrix, the three families, all tables —
is the same. -/
theorem report_deterministic (names : List (List Char)) (beta : List ℝ) (bounds : List (Option ℝ × Option ℝ))
    (H V₁ V₂ B : Mat ℝ) (S : Option (Mat ℝ))
    (h₁ : IsPinv beta.length H (mneg beta.length V₁)) (h₂ : IsPinv beta.length H (mneg beta.length V₂))
    (s₁ : Shape beta.length V₁) (s₂ : Shape beta.length V₂) :
    mkRep names beta bounds V₁ B S = mkRep names beta bounds V₂ B S := by
  have h := pinv_unique beta.length H _ _ h₁ h₂
  have e : EqOn beta.length V₁ V₂ := by
    intro i j hi hj
    have := h i j hi hj
    unfold mneg at this
    rw [ent_build _ _ _ _ _ hi hj, ent_build _ _ _ _ _ hi hj] at this
    simpa using this
  rw [eq_of_shape beta.length V₁ V₂ s₁ s₂ e]

/-! ### the three families -/

/-- **Each family is closed**: for the classical, robust and bootstrap family alike, the
p-value is `calc_p_value` of *that family's* t statistic, the t statistic is formed from the
estimate and *that family's* standard error, and the standard error from the diagonal of
*that family's* covariance matrix (`V`, `V·B·V`, sample covariance of the replications). -/
theorem family_closed (names : List (List Char)) (beta : List ℝ) (bounds : List (Option ℝ × Option ℝ))
    (V B : Mat ℝ) (S : Option (Mat ℝ)) (f : FamId) (k : Nat) :
    let r := mkRep names beta bounds V B S
    r.stat f .p k = pOf (r.stat f .t k) ∧
    r.stat f .t k = tOf (vget beta k) (r.stat f .se k) ∧
    r.stat f .se k = seOf (ent (r.cov f) k k) ∧
    r.cov .classical = V ∧ r.cov .robust = robust beta.length V B ∧
    (∀ s, S = some s → r.cov .bootstrap = sampleCov beta.length s) := by
  refine ⟨rfl, rfl, rfl, rfl, rfl, ?_⟩
  intro s hs; subst hs; rfl

/-- **Regular case**: positive variance, ratio representable ⇒ se = √variance,
t = estimate / se, p = 2(1 − Φ(|t|)). -/
theorem family_regular (r : Rep ℝ) (f : FamId) (k : Nat)
    (hv : 0 < ent (r.cov f) k k)
    (hr : |vget r.beta k / Real.sqrt (ent (r.cov f) k k)| ≤ maxFloat) :
    r.stat f .se k = Real.sqrt (ent (r.cov f) k k) ∧
    r.stat f .t k = vget r.beta k / r.stat f .se k ∧
    r.stat f .p k = 2 * (1 - NumR.Phi |r.stat f .t k|) := by
  have hse : r.stat f .se k = Real.sqrt (ent (r.cov f) k k) := seOf_real _ hv.le
  have hne : Real.sqrt (ent (r.cov f) k k) ≠ 0 := (Real.sqrt_pos.mpr hv).ne'
  have ht : r.stat f .t k = vget r.beta k / r.stat f .se k := by
    rw [hse]
    show tOf _ (seOf _) = _
    rw [seOf_real _ hv.le]
    exact tOf_real _ _ hne hr
  refine ⟨hse, ht, ?_⟩
  show pOf (r.stat f .t k) = _
  exact pOf_real _

/-- **The code's special cases**: a negative variance gives the largest float as standard
error; a zero standard error gives the largest float as t statistic. -/
theorem family_special (r : Rep ℝ) (f : FamId) (k : Nat) :
    (ent (r.cov f) k k < 0 → r.stat f .se k = maxFloat) ∧
    (r.stat f .se k = 0 → r.stat f .t k = maxFloat) := by
  constructor
  · intro h; exact seOf_neg _ h
  · intro h
    show tOf _ (r.stat f .se k) = _
    rw [h]; exact tOf_zero _

/-- the p-value depends on |t| only, lies in [0, 2] and never grows with |t| -/
theorem pvalue_shape (s t : ℝ) :
    pOf (-t) = pOf t ∧ 0 ≤ pOf t ∧ pOf t ≤ 2 ∧ (|s| ≤ |t| → pOf t ≤ pOf s) :=
  ⟨pOf_neg t, (pOf_range t).1, (pOf_range t).2, pOf_antitone s t⟩

/-! ### correlations and pair tests -/

/-- **The matrix product the code evaluates is the textbook entry**:
`(D⁻¹·V·D⁻¹)_ij = V_ij / (√V_ii · √V_jj)` with `D = diag(√V_kk)`. -/
theorem corr_matrix_form (K : Nat) (V : Mat ℝ) (i j : Nat) (hi : i < K) (hj : j < K) :
    ent (corrProd K V) i j = corrEntry V i j := by
  rw [corrProd_entry K V i j hi hj, corrEntry_real]

/-- with positive variances the reported matrix is that product, its diagonal is one and it
is symmetric when `V` is -/
theorem corr_diag_one (K : Nat) (V : Mat ℝ) (hpos : ∀ k, k < K → 0 < ent V k k) (i : Nat) (hi : i < K) :
    ent (corr K V) i i = 1 := by
  rw [corr_pos K V hpos, corrProd_entry K V i i hi hi, Real.mul_self_sqrt (hpos i hi).le]
  exact div_self (hpos i hi).ne'

theorem corr_symm (K : Nat) (V : Mat ℝ) (hpos : ∀ k, k < K → 0 < ent V k k) (hV : IsSymm K V) :
    IsSymm K (corr K V) := by
  intro i j hi hj
  rw [corr_pos K V hpos, corrProd_entry K V i j hi hj, corrProd_entry K V j i hj hi, hV i j hi hj,
    mul_comm]

/-- a non-positive variance anywhere: every entry is the largest float (the code's flag) -/
theorem corr_degenerate (K : Nat) (V : Mat ℝ) (k : Nat) (hk : k < K) (hv : ent V k k ≤ 0)
    (i j : Nat) (hi : i < K) (hj : j < K) : ent (corr K V) i j = maxFloat := by
  unfold corr
  have : allPos K V = false := by
    rw [Bool.eq_false_iff]
    intro h
    have := (allPos_iff K V).mp h k hk
    linarith
  rw [this]
  simp only [Bool.false_eq_true, ↓reduceIte]
  exact ent_build _ _ _ _ _ hi hj

/-- **Pair test formula**: variance(i) + variance(j) − 2 covariance(i,j) under the root. -/
theorem pair_formula (beta : List ℝ) (V : Mat ℝ) (i j : Nat)
    (h : 0 < ent V i i + ent V j j - 2 * ent V i j) :
    pairT beta V i j =
      (vget beta i - vget beta j) / Real.sqrt (ent V i i + ent V j j - 2 * ent V i j) := by
  rw [← pairR_real] at h ⊢
  exact pairT_pos beta V i j h

/-- **Antisymmetry**: exchanging the two parameters changes the sign of the test and
leaves its p-value unchanged (symmetric `V`, regular case). -/
theorem pair_antisymm (beta : List ℝ) (V : Mat ℝ) (i j : Nat) (hs : ent V i j = ent V j i)
    (h : 0 < pairR V i j) :
    pairT beta V j i = - pairT beta V i j ∧ pOf (pairT beta V j i) = pOf (pairT beta V i j) := by
  have h' : 0 < pairR V j i := by rw [pairR_symm V i j hs]; exact h
  have e : pairT beta V j i = - pairT beta V i j := by
    rw [pairT_pos beta V j i h', pairT_pos beta V i j h, pairR_symm V i j hs]
    ring
  exact ⟨e, by rw [e, pOf_neg]⟩

/-- the code's special case of the pair test -/
theorem pair_degenerate (beta : List ℝ) (V : Mat ℝ) (i j : Nat) (h : pairR V i j ≤ 0) :
    pairT beta V i j = maxFloat :=
  pairT_nonpos beta V i j h

/-! ### robust and bootstrap covariance -/

/-- robust = V·B·V is symmetric when V and B are -/
theorem robust_symm (K : Nat) (V B : Mat ℝ) (hV : IsSymm K V) (hB : IsSymm K B) :
    IsSymm K (robust K V B) :=
  robust_isSymm K V B hV hB

/-- … and has a non-negative diagonal when B (a sum of outer products) is positive
semi-definite: the negative-variance branch is never taken in the robust family -/
theorem robust_variance_nonneg (K : Nat) (V B : Mat ℝ) (hV : IsSymm K V) (hB : PSD K B)
    (k : Nat) (hk : k < K) : 0 ≤ ent (robust K V B) k k :=
  robust_diag_nonneg K V B hV hB k hk

/-- **Sample covariance**: entry (i, j) is Σ_b (x_bi − x̄_i)(x_bj − x̄_j) / (B − 1) with
x̄ the column means — what `np.cov(·, rowvar=False)` denotes. -/
theorem samplecov_def (K : Nat) (S : Mat ℝ) (i j : Nat) (hi : i < K) (hj : j < K) :
    ent (sampleCov K S) i j =
      (S.map fun row => (vget row i - (S.map fun r => vget r i).sum / (S.length : ℝ)) *
                        (vget row j - (S.map fun r => vget r j).sum / (S.length : ℝ))).sum
        / ((S.length - 1 : ℕ) : ℝ) := by
  rw [sampleCov_entry K S i j hi hj]
  simp only [colMean_real]

theorem samplecov_symm (K : Nat) (S : Mat ℝ) : IsSymm K (sampleCov K S) := sampleCov_isSymm K S

theorem samplecov_variance_nonneg (K : Nat) (S : Mat ℝ) (k : Nat) (hk : k < K) :
    0 ≤ ent (sampleCov K S) k k :=
  sampleCov_diag_nonneg K S k hk

/-- **Correlations are normalised covariances**: in the robust family (BHHH positive
semi-definite — it is a sum of outer products) and in the bootstrap family every reported
correlation lies in [−1, 1] (regular case: positive variances; V and B symmetric). -/
theorem correlation_range (K : Nat) (V B S : Mat ℝ) (hV : IsSymm K V) (hBs : IsSymm K B) (hB : PSD K B) (i j : Nat)
    (hi : i < K) (hj : j < K) :
    ((∀ k, k < K → 0 < ent (robust K V B) k k) → |ent (corr K (robust K V B)) i j| ≤ 1) ∧
    ((∀ k, k < K → 0 < ent (sampleCov K S) k k) → |ent (corr K (sampleCov K S)) i j| ≤ 1) := by
  constructor
  · intro hpos
    exact corr_abs_le_one K _ (robust_isSymm K V B hV hBs) (robust_psd K V B hV hB) hpos i j hi hj
  · intro hpos
    exact corr_abs_le_one K _ (sampleCov_isSymm K S) (sampleCov_psd K S) hpos i j hi hj

/-! ### summary statistics -/

/-- LR = −2(L₀ − L), AIC = 2K − 2L, BIC = −2L + K ln N -/
theorem summary_formulas (K N : Nat) (L0 L : ℝ) :
    lrt L0 L = -2 * (L0 - L) ∧ aic K L = 2 * (K : ℝ) - 2 * L ∧
    bic K N L = -2 * L + (K : ℝ) * Real.log (N : ℝ) :=
  ⟨lrt_real L0 L, aic_real K L, bic_real K N L⟩

/-- ρ² = 1 − L/L₀ and ρ̄² = 1 − (L − K)/L₀ (values representable as floats) -/
theorem rho_formulas (K : Nat) (L0 L : ℝ) (h1 : |1 - L / L0| ≤ maxFloat)
    (h2 : |1 - (L - K) / L0| ≤ maxFloat) :
    rho2 L0 L = 1 - L / L0 ∧ rhoBar2 K L0 L = 1 - (L - K) / L0 :=
  ⟨rho2_real L0 L h1, rhoBar2_real K L0 L h2⟩

/-- a missing or zero reference likelihood gives no statistic; otherwise the formula -/
theorem reference_cases (L0 : Option ℝ) (f : ℝ → ℝ) :
    (L0 = none → overRef L0 f = none) ∧ (L0 = some 0 → overRef L0 f = none) ∧
    (∀ l, L0 = some l → l ≠ 0 → overRef L0 f = some (f l)) := by
  refine ⟨?_, ?_, ?_⟩
  · intro h; subst h; rfl
  · intro h; subst h; simp [overRef]
  · intro l h hl; subst h; simp [overRef, hl]

/-! ### tables: every cell is the quantity its label names -/

/-- **Parameter table**: for every column label the layout produces (with or without the
active-bound column, robust only or all families, with or without bootstrap, any number of
replications) and every parameter, the cell is the quantity the label names. -/
theorem table_labels_parameters {α : Type} [NumOps α] (r : Rep α) (onlyRobust : Bool) (k : Nat) (c : PLabel)
    (hc : c ∈ paramColumns r.anyActive onlyRobust (r.boot.map (·.1))) :
    (paramRow r onlyRobust k).lookup c = some (r.qty k c.meaning) :=
  param_row_lookup r onlyRobust k c hc

/-- **Correlation table**: covariance, correlation, pair test and its p-value of the
family the label names, for every pair. -/
theorem table_labels_correlation {α : Type} [NumOps α] (r : Rep α) (i j : Nat) (c : CLabel)
    (hc : c ∈ corrColumns r.boot.isSome) :
    (corrRow r i j).lookup c = some (r.pairQty c.meaning.1 c.meaning.2 i j) :=
  corr_row_lookup r i j c hc

/-- **General statistics**: every entry of the dictionary is its label's defining formula
applied to the raw outcome. -/
theorem table_labels_general {α : Type} [NumOps α] (raw : Raw α) (l : GLabel) (v : GVal α)
    (h : (l, v) ∈ generalStatistics raw) : v = raw.meaning l :=
  general_meaning raw l v h

/-- **Compiled table, one model** (formatted or not, any choice of statistics and of the
std/t-test rows): every assignment `df.loc[label, model] = value` stores the quantity the
row label names for that model. -/
theorem table_labels_compiled_column {α : Type} [NumOps α] (o : CompileOpts) (raw : Raw α) (r : Rep α)
    (hK : r.K = r.names.length) (hnd : r.names.Nodup)
    (hstats : ∀ s ∈ o.statistics, ((generalStatistics raw).lookup s).isSome)
    (l : RLabel) (c : Cell α) (h : (l, c) ∈ compileColumn o raw r) :
    l.meaning raw r = some c :=
  compile_column_meaning o raw r hK hnd hstats l c h

/-- **Compiled table, several models**: a filled cell in row `l`, column `m` is the
quantity `l` names for model `m` (cells never assigned stay empty); the rows are exactly
the labels assigned by some model, each once. -/
theorem table_labels_compiled {α : Type} [NumOps α] (o : CompileOpts) (models : List (Raw α × Rep α))
    (hok : ∀ p ∈ models, p.2.K = p.2.names.length ∧ p.2.names.Nodup ∧
      ∀ s ∈ o.statistics, ((generalStatistics p.1).lookup s).isSome)
    (l : RLabel) (cells : List (Option (Cell α))) (h : (l, cells) ∈ compileTable o models)
    (m : Nat) (hm : m < models.length) (c : Cell α) (hc : cells[m]? = some (some c)) :
    l.meaning (models[m]).1 (models[m]).2 = some c := by
  have hmem := compile_table_cell o models l cells h m hm c hc
  obtain ⟨h1, h2, h3⟩ := hok _ (List.getElem_mem hm)
  exact compile_column_meaning o _ _ h1 h2 h3 l c hmem

theorem compiled_rows {α : Type} [NumOps α] (o : CompileOpts) (models : List (Raw α × Rep α)) :
    ((compileTable o models).map (·.1)).Nodup ∧
    ∀ l, l ∈ (compileTable o models).map (·.1) ↔
      ∃ m, ∃ hm : m < models.length, ∃ c, (l, c) ∈ compileColumn o (models[m]).1 (models[m]).2 := by
  refine ⟨?_, compile_table_rows o models⟩
  unfold compileTable
  simp only [List.map_map, Function.comp_def, List.map_id']
  exact dedup_nodup _

/-- the rendered column labels of one table are pairwise different, so aligning on the
strings (as pandas does) is aligning on the labels -/
theorem labels_distinct (n : Nat) :
    (∀ a b, a ∈ PLabel.all n → b ∈ PLabel.all n → a.render = b.render → a = b) ∧
    (CLabel.all.map CLabel.render).Nodup ∧ (GLabel.all.map GLabel.render).Nodup :=
  ⟨plabel_render_inj n, clabel_render_nodup, glabel_render_nodup⟩

/-- **Row labels of the compiled table are unambiguous** — proved for parameter names that
are not statistic labels and do not end in " (std)" / " (ttest)" (`NameOK`): two labels of
one call that print the same string are the same label, so a row of the data frame has one
meaning.  (Without the guard the statement is false of the code: see
`compiled_labels_can_collide`.) -/
theorem compiled_labels_unambiguous_partial (o : CompileOpts) (a b : RLabel)
    (ha : a.inTable o) (hb : b.inTable o) (h : a.render = b.render) : a = b :=
  rlabel_render_inj o a b ha hb h

/-- every label a call produces belongs to the table's label set when the names are `NameOK` -/
theorem compiled_labels_in_table {α : Type} [NumOps α] (o : CompileOpts) (raw : Raw α) (r : Rep α)
    (hok : ∀ k, k < r.K → NameOK (r.names.getD k []))
    (l : RLabel) (c : Cell α) (h : (l, c) ∈ compileColumn o raw r) : l.inTable o :=
  compile_column_inTable o raw r hok l c h

/-- witness: a parameter called `b (std)` prints like the standard-error row of `b` -/
theorem compiled_labels_can_collide :
    (RLabel.val "b (std)".toList).render = (RLabel.std "b".toList).render ∧
    RLabel.val "b (std)".toList ≠ RLabel.std "b".toList := by
  constructor
  · decide
  · intro h; cases h

/-! ### text reports: every printed figure is the quantity its label (or position) names -/

/-- **`short_summary`**: when the text is produced, every line holds the defining formula of
the statistic its words name (null-model block only with a null likelihood). -/
theorem report_short_summary {α : Type} [NumOps α] (raw : Raw α) (items : List (GLabel × GVal α))
    (h : shortSummary raw = .ok items) (l : GLabel) (v : GVal α) (hm : (l, v) ∈ items) :
    v = raw.meaning l := by
  rw [mkTxtT_ok _ _ h] at hm
  exact short_summary_meaning raw l v hm

/-- **`__str__`, statistics lines** (null block, init block, gradient norm when present). -/
theorem report_str_statistics {α : Type} [NumOps α] (raw : Raw α) (items : List (GLabel × GVal α))
    (h : strStats raw = .ok items) (l : GLabel) (v : GVal α) (hm : (l, v) ∈ items) :
    v = raw.meaning l := by
  rw [mkTxtT_ok _ _ h] at hm
  exact str_items_meaning raw l v hm

/-- **`print_general_statistics`** prints exactly the dictionary of `get_general_statistics`,
hence (`table_labels_general`) the defining formula under every label. -/
theorem report_print_general {α : Type} [NumOps α] (raw : Raw α) (items : List (GLabel × GVal α))
    (h : printGeneral raw = .ok items) :
    items = generalStatistics raw ∧ ∀ l v, (l, v) ∈ items → v = raw.meaning l := by
  have e := mkTxt_ok _ _ h
  subst e
  exact ⟨rfl, fun l v hm => general_meaning raw l v hm⟩

/-- … and is refused (`TypeError` of `str.format`) exactly when some figure is `None` under a
non-empty format specification; in particular without an initial log likelihood. -/
theorem report_print_general_refused {α : Type} [NumOps α] (raw : Raw α) :
    (printGeneral raw = .error ↔
      ∃ p ∈ generalStatistics raw, p.2.formattable p.1.format = false) ∧
    (raw.initLL = none → printGeneral raw = .error) := by
  refine ⟨mkTxt_error_iff _, fun h => (mkTxt_error_iff _).mpr ⟨(.initLL, .onum none), ?_, rfl⟩⟩
  simp [generalStatistics, h]

/-- **`Beta.__str__`** (the parameter lines of `__str__`): value, then (se, t, p) of the
classical, the robust and — with a bootstrap sample — the bootstrap family, each figure being
that family's statistic. -/
theorem report_str_parameters {α : Type} [NumOps α] (r : Rep α) (k : Nat) (q : ParamQty) (v : α)
    (h : (q, v) ∈ betaLine r k) : v = r.qty k q :=
  betaLine_meaning r k q v h

/-- **pair lines of `__str__`**: the eight places are covariance, correlation, pair test and
p-value of the classical and then of the robust family (with or without bootstrap block). -/
theorem report_str_pairs {α : Type} [NumOps α] (r : Rep α) (i j : Nat) :
    strPairLine r i j = strPairMeaning.map fun p => r.pairQty p.1 p.2 i j :=
  strPairLine_eq r i j

/-- **HTML / LaTeX statistics rows**: the HTML report prints the dictionary entries whose value
is not `None` (all of them formattable), each the defining formula of its label. -/
theorem report_html_statistics {α : Type} [NumOps α] (raw : Raw α) (l : GLabel) (v : GVal α) :
    ((l, v) ∈ htmlGeneral raw ↔ (l, v) ∈ generalStatistics raw ∧ v.formattable .g7 = true) ∧
    ((l, v) ∈ htmlGeneral raw → v = raw.meaning l) := by
  refine ⟨htmlGeneral_mem raw (l, v), fun h => ?_⟩
  exact general_meaning raw l v ((htmlGeneral_mem raw (l, v)).mp h).1

/-- **HTML correlation rows name their two parameters** — proved for names without `-` (the
code recovers them by `name.split('-')`).  Without the guard the statement is false of the
code: `html_pair_names_can_mislabel`. -/
theorem report_html_pair_names_partial {α : Type} [NumOps α] (r : Rep α) (i j : Nat)
    (hi : '-' ∉ r.names.getD i []) (hj : '-' ∉ r.names.getD j []) :
    htmlPairNames r i j = (r.names.getD i [], r.names.getD j []) :=
  htmlPairNames_nodash r i j hi hj

/-- witness: the pair (`a-b`, `c`) is printed as the pair (`a`, `b`) -/
theorem html_pair_names_can_mislabel :
    (seg0 ("a-b".toList ++ ['-'] ++ "c".toList), seg1 ("a-b".toList ++ ['-'] ++ "c".toList)) =
      ("a".toList, "b".toList) := by
  decide

/-- **F12 coefficient lines**: constrained flag = the bound is active, value = the estimate,
standard error = that of the family selected by `robust_std_err`. -/
theorem report_f12_coefficients (r : Rep ℝ) (robustStdErr : Bool) (k : Nat) :
    f12Coef r robustStdErr k =
      (r.active.getD k false, vget r.beta k,
       r.stat (if robustStdErr then .robust else .classical) .se k) :=
  f12Coef_real r robustStdErr k

/-- **F12 correlations**: the correlation of the selected family, pairs in the order of the
second-order table. -/
theorem report_f12_correlations {α : Type} [NumOps α] (r : Rep α) (robustStdErr : Bool) :
    f12Corr r robustStdErr = (pairs r.K).map fun p =>
      r.pairQty (if robustStdErr then .robust else .classical) .corr p.1 p.2 :=
  f12Corr_eq r robustStdErr

/-- **`get_correlation_results(subset)`**: the rows are rows of the full table (so every cell
is the quantity its label names, `table_labels_correlation`), exactly those of the pairs whose two
names both belong to the subset; names of the subset that are no parameters change nothing. -/
theorem table_subset_correlation {α : Type} [NumOps α] (r : Rep α) (subset : List (List Char)) :
    (∀ row, row ∈ corrTableSubset r subset → row ∈ corrTable r) ∧
    (∀ p, p ∈ corrSubsetPairs r subset ↔
      p ∈ pairs r.K ∧ r.names.getD p.1 [] ∈ subset ∧ r.names.getD p.2 [] ∈ subset) :=
  ⟨corrTableSubset_sub r subset, corrSubsetPairs_iff r subset⟩

/-- **Bootstrap draws by name** (`get_betas_for_sensitivity_analysis(…, use_bootstrap=True)`):
for distinct parameter names, every dictionary maps a requested name to that parameter's own
column of the replication — whatever the order of the request. -/
theorem draws_by_name {α : Type} [NumOps α] (names : List (List Char)) (hnd : names.Nodup) (ks : List Nat)
    (hks : ∀ k ∈ ks, k < names.length) (S : Mat α) :
    sensDraws names (ks.map fun k => names.getD k []) S =
      some (S.map fun row => ks.map fun k => (names.getD k [], vget row k)) :=
  sensDraws_by_name names hnd ks hks S

/-- **Label → attribute → formula**: the figure under a label of `get_general_statistics` is what
was stored in the attribute that label reads (the label → attribute → format table is regenerated
from live objects, `Generated/StatsLabels.lean`), and what `_calculate_stats` / the constructor
stored there is the label's defining formula applied to the raw outcome. -/
theorem general_sources {α : Type} [NumOps α] (raw : Raw α) (l : GLabel) (v : GVal α)
    (h : (l, v) ∈ generalStatistics raw) :
    v = attrValue raw l.source ∧ attrValue raw l.source = raw.meaning l :=
  ⟨general_source raw l v h, attrValue_meaning raw l⟩

/-- … the same for the lines of `short_summary` and `__str__`, whose labels are among the
lists the generated tables enumerate. -/
theorem text_sources {α : Type} [NumOps α] (raw : Raw α) (l : GLabel) (v : GVal α) :
    ((l, v) ∈ shortSummaryItems raw → v = attrValue raw l.source ∧ l ∈ shortLabels) ∧
    ((l, v) ∈ strItems raw → v = attrValue raw l.source ∧ l ∈ strLabels) :=
  ⟨short_source raw l v, str_source raw l v⟩

/-- the words `short_summary` / `__str__` use are pairwise different -/
theorem text_labels_distinct : (GLabel.all.map GLabel.textLabel).Nodup := by decide

/-! ### compiled table over entries with an error path (unreadable pickle files) -/

/-- **Column k depends on entry k only** (and on the row label): in the table compiled from a
dictionary of results objects, readable and unreadable pickle files — in any order — the cell of
row `l` in column `k` is the last assignment to `l` made from entry `k`; two dictionaries that
agree on entry `k` give the same cell, whatever precedes or follows. -/
theorem compiled_column_local {α : Type} [NumOps α] (o : CompileOpts)
    (es es' : List (Option (Raw α × Rep α))) (k : Nat) (hk : es[k]? = es'[k]?)
    (l : RLabel) (cells cells' : List (Option (Cell α)))
    (h : (l, cells) ∈ compileTableE o es) (h' : (l, cells') ∈ compileTableE o es') :
    cells[k]? = cells'[k]? := by
  rw [compileTableE_cell o es l cells h k, compileTableE_cell o es' l cells' h' k, hk]

/-- **The column of an unreadable entry is empty**: nothing of another model is shown in it. -/
theorem compiled_unreadable_empty {α : Type} [NumOps α] (o : CompileOpts)
    (es : List (Option (Raw α × Rep α))) (k : Nat) (hk : es[k]? = some none)
    (l : RLabel) (cells : List (Option (Cell α))) (h : (l, cells) ∈ compileTableE o es) :
    cells[k]? = some none := by
  rw [compileTableE_cell o es l cells h k, hk]
  rfl

/-- **A filled cell of a readable entry is the quantity its row label names for THAT model**
(same guards as `table_labels_compiled`). -/
theorem compiled_entries_labels {α : Type} [NumOps α] (o : CompileOpts)
    (es : List (Option (Raw α × Rep α))) (k : Nat) (raw : Raw α) (r : Rep α)
    (hk : es[k]? = some (some (raw, r)))
    (hK : r.K = r.names.length) (hnd : r.names.Nodup)
    (hstats : ∀ s ∈ o.statistics, ((generalStatistics raw).lookup s).isSome)
    (l : RLabel) (cells : List (Option (Cell α))) (h : (l, cells) ∈ compileTableE o es)
    (c : Cell α) (hc : cells[k]? = some (some c)) : l.meaning raw r = some c := by
  rw [compileTableE_cell o es l cells h k, hk] at hc
  simp only [Option.map_some, Option.some.injEq, entryColumn] at hc
  exact compile_column_meaning o raw r hK hnd hstats l c (List.mem_reverse.mp (mem_of_lookup _ _ _ hc))

/-- with readable entries only this is the table of `table_labels_compiled` -/
theorem compiled_entries_all_readable {α : Type} [NumOps α] (o : CompileOpts) (models : List (Raw α × Rep α)) :
    compileTableE o (models.map some) = compileTable o models :=
  compileTableE_some o models

/-- non-vacuity: an unreadable entry after a readable one -/
example {α : Type} [NumOps α] (p : Raw α × Rep α) : ([some p, none] : List (Option (Raw α × Rep α)))[1]? = some none := rfl

/-! ### likelihood-ratio test -/

/-- **Refusal cases**: the test is refused exactly when the model with the strictly higher
likelihood has strictly fewer parameters, or the first model is not better and has at least
as many parameters. -/
theorem lr_refusal (l1 l2 : ℝ) (k1 k2 : Int) :
    lrRoles l1 k1 l2 k2 = .refused ↔ (l2 < l1 ∧ k1 < k2) ∨ (l1 ≤ l2 ∧ k2 ≤ k1) :=
  lrRoles_refused_iff l1 l2 k1 k2

/-- **Roles, statistic, degrees of freedom** when the test is performed: the two models are
the arguments, the unrestricted one has at least the likelihood and the parameters of the
restricted one, statistic = −2(L_r − L_u) ≥ 0, df = K_u − K_r ≥ 0. -/
theorem lr_decision (l1 l2 : ℝ) (k1 k2 : Int) (stat : ℝ) (df : Int) (llU llR : ℝ) (kU kR : Int)
    (h : lrRoles l1 k1 l2 k2 = .ok stat df llU llR kU kR) :
    stat = -2 * (llR - llU) ∧ df = kU - kR ∧ 0 ≤ df ∧ llR ≤ llU ∧ 0 ≤ stat ∧
    ((llU = l1 ∧ kU = k1 ∧ llR = l2 ∧ kR = k2) ∨ (llU = l2 ∧ kU = k2 ∧ llR = l1 ∧ kR = k1)) :=
  lrRoles_ok l1 l2 k1 k2 stat df llU llR kU kR h

/-- H0 is rejected exactly when the statistic exceeds the χ² threshold -/
theorem lr_reject (stat thr : ℝ) : lrReject stat thr = true ↔ thr < stat := lrReject_iff stat thr

/-- The outcome does not depend on the order of the two models — proved for different
likelihoods and different numbers of parameters.  (The full statement is false of the code:
see `lr_order_matters_on_ties`.) -/
theorem lr_symmetric_partial (l1 l2 : ℝ) (k1 k2 : Int) (hl : l1 ≠ l2) (hk : k1 ≠ k2) :
    lrRoles l1 k1 l2 k2 = lrRoles l2 k2 l1 k1 :=
  lrRoles_symm l1 l2 k1 k2 hl hk

/-- witness: with equal likelihoods the test is performed in one order and refused in the
other -/
theorem lr_order_matters_on_ties :
    lrRoles (-100 : ℝ) 3 (-100) 5 ≠ lrRoles (-100 : ℝ) 5 (-100) 3 := by
  unfold lrRoles
  simp

/-- **The results-object entry point** `self.likelihood_ratio_test(other)`: when performed, the
statistic is −2(L_r − L_u) of the two objects' final log likelihoods — for likelihoods of any
magnitude and any difference — the degrees of freedom the difference of their numbers of
parameters, and the roles are the two objects. -/
theorem lr_on_results (self other : Raw ℝ) (stat : ℝ) (df : Int) (llU llR : ℝ) (kU kR : Int)
    (h : lrOnResults self other = .ok stat df llU llR kU kR) :
    stat = -2 * (llR - llU) ∧ df = kU - kR ∧ 0 ≤ df ∧ 0 ≤ stat ∧
    ((llU = other.logLike ∧ kU = other.K ∧ llR = self.logLike ∧ kR = self.K) ∨
     (llU = self.logLike ∧ kU = self.K ∧ llR = other.logLike ∧ kR = other.K)) := by
  obtain ⟨h1, h2, h3, _, h5, h6⟩ := lrRoles_ok _ _ _ _ stat df llU llR kU kR h
  exact ⟨h1, h2, h3, h5, by simpa using h6⟩

/-! ### non-vacuity -/

/-- a regular and a singular instance of the relation -/
example (n : Nat) : IsPinv n (ident n : Mat ℝ) (ident n) := by
  apply pinv_inverse
  rw [eqOn_iff, toM_mmul, toM_ident, Matrix.one_mul]

example (n : Nat) : IsPinv n (build n n fun _ _ => (0 : ℝ)) (build n n fun _ _ => (0 : ℝ)) := by
  have z : toM n (build n n fun _ _ => (0 : ℝ)) = 0 := by
    ext i j; simp only [toM]; rw [ent_build _ _ _ _ _ i.2 j.2]; rfl
  rw [isPinv_iff, z]
  exact ⟨by simp, by simp, by simp, by simp⟩

/-- the regular case of a family is inhabited -/
example : ∃ r : Rep ℝ, 0 < ent (r.cov .robust) 0 0 ∧
    |vget r.beta 0 / Real.sqrt (ent (r.cov .robust) 0 0)| ≤ maxFloat := by
  refine ⟨{ K := 1, names := [['b']], beta := [0], active := [false], cls := [[1]], rob := [[1]],
            boot := none }, ?_, ?_⟩
  · simp [Rep.cov, ent, vget]
  · simp [Rep.cov, ent, vget, maxFloat_pos.le]

/-- a concrete label lookup: the robust t-test column with active bounds and bootstrap -/
example : (paramColumns true false (some 7)).length = 11 := by decide

/-- the likelihood-ratio test is performed on a standard pair -/
example : lrRoles (-100 : ℝ) 5 (-110) 3 = .ok 20 2 (-100) (-110) 5 3 := by
  unfold lrRoles
  norm_num

/-- the text reports are inhabited: a line of `short_summary`, and a performed test on two
results objects -/
example {α : Type} [NumOps α] (raw : Raw α) : (GLabel.finalLL, GVal.num raw.logLike) ∈ shortSummaryItems raw := by
  simp [shortSummaryItems]

example : (paramRow ({ K := 1, names := [['b']], beta := [2], active := [true], cls := [[1]], rob := [[4]], boot := none } : Rep ℝ) false 0).lookup PLabel.activeBound = some 1 := by
  simp (config := {decide := true}) [paramRow, Rep.anyActive, List.lookup, plabel_beq]

/-- the hypotheses of `draws_by_name` hold for a request in reverse order of two distinct names -/
example : ([['b'], ['a']] : List (List Char)).Nodup ∧ ∀ k ∈ [1, 0], k < ([['b'], ['a']] : List (List Char)).length := by decide

/-- `general_sources` is inhabited: the entry of the final log likelihood -/
example {α : Type} [NumOps α] (raw : Raw α) : (GLabel.finalLL, GVal.num raw.logLike) ∈ generalStatistics raw := by
  simp [generalStatistics]

end C08
