/-
C09 — panel likelihood: product over each individual's rows, with shared draws.
Property theorems only (helper lemmas in Proofs/Panel.lean, Proofs/PanelMap.lean,
Proofs/PanelReal.lean).

Round 3 (Model/PanelCode.lean, Proofs/PanelCode.lean): `countGroupsCode` = count_number_of_groups as
written, `tableValuesMC` / `tableValuesMulti` the table-level pipelines with draws / with several
trajectory operators, `resample` / `Sess` the bootstrap loop, `Obj` one BIOGEME object while the table
changes, `scaledOutput` / `bhhhPanel` the derivatives by individuals.

`panelOk` is the test of `Database.panel`, `panelMap` the table built by `build_panel_map`,
`trajectory`/`mcPanel` the engine's operators (modelled from bioExprPanelTrajectory.cc,
bioExprMontecarlo.cc, bioExprDraws.cc — not verified), `tableValues` the whole pipeline
table → sort by id → map → one value per individual.
-/
import Model.Panel
import Model.PanelCode
import Proofs.Panel
import Proofs.PanelCode
import Proofs.PanelMap
import Proofs.PanelReal

open Panel

namespace C09

/-! ### the contiguity test -/

/-- each id occupies one run -/
def Contiguous (ids : List Int) : Prop := (compress ids).Nodup

/-- **The code's test `count_number_of_groups(ids) == count_number_of_groups(sorted ids)` holds
iff every individual's rows are consecutive** — for every id column (any values, any order). -/
theorem contiguous_iff (ids : List Int) : panelOk ids = true ↔ Contiguous ids :=
  panelOk_iff ids

/-- `Contiguous` in index form: if two rows carry the same id, so does every row between them. -/
theorem contiguous_index_form (ids : List Int) :
    Contiguous ids ↔
      ∀ i j k, i < j → j < k → k < ids.length → ids[i]? = ids[k]? → ids[j]? = ids[i]? :=
  nodup_compress_iff ids

/-- interleaved rows are refused, blocks in any order of the individuals are accepted -/
example : panelOk [7, 7, -3, 7] = false := by
  rw [Bool.eq_false_iff, ne_eq, contiguous_iff]; unfold Contiguous; decide
example : panelOk [7, 7, 7, -3, -3, 1000000, 2, 2] = true := by
  rw [contiguous_iff]; unfold Contiguous; decide
example : panelOk [5] = true := by rw [contiguous_iff]; unfold Contiguous; decide

/-! ### the individual map -/

/-- **Every entry of the map of a sorted id column holds exactly the rows of its id**: position
`i` lies in `[first, last]` iff row `i` carries that id; the bounds are inside the table. -/
theorem map_block (s : List Int) (hs : s.Pairwise (· ≤ ·)) (e : Entry) (he : e ∈ panelMap s)
    (i : Nat) (hi : i < s.length) :
    (e.first ≤ i ∧ i ≤ e.last) ↔ s[i]? = some e.id := by
  obtain ⟨hid, hf, hl⟩ := (mem_panelMap s e).1 he
  rw [hf, hl]
  exact block_iff s hs e.id hid i hi

theorem map_bounds (s : List Int) (e : Entry) (he : e ∈ panelMap s) :
    e.first ≤ e.last ∧ e.last < s.length := by
  obtain ⟨hid, hf, hl⟩ := (mem_panelMap s e).1 he
  rw [hf, hl]
  exact block_bounds s e.id hid

/-- **Every row belongs to exactly one individual** (the blocks partition `[0, N)`). -/
theorem map_partition (s : List Int) (hs : s.Pairwise (· ≤ ·)) (i : Nat) (hi : i < s.length) :
    ∃ e, (e ∈ panelMap s ∧ i ∈ e.rows) ∧ ∀ e', e' ∈ panelMap s ∧ i ∈ e'.rows → e' = e := by
  have hmem : s[i] ∈ s := List.getElem_mem hi
  let e : Entry := ⟨s[i], minList (indicesOf s s[i]), maxList (indicesOf s s[i])⟩
  have he : e ∈ panelMap s := (mem_panelMap s e).2 ⟨hmem, rfl, rfl⟩
  refine ⟨e, ⟨he, ?_⟩, ?_⟩
  · rw [mem_rows]
    exact (map_block s hs e he i hi).2 (List.getElem?_eq_getElem hi)
  · rintro e' ⟨he', hi'⟩
    rw [mem_rows] at hi'
    have h1 := (map_block s hs e' he' i hi).1 hi'
    rw [List.getElem?_eq_getElem hi] at h1
    exact panelMap_inj s e' e he' he (by simp only [Option.some.injEq] at h1; exact h1.symm)

/-- one entry per individual: the ids of the map are the distinct ids, each once, in order of
first appearance -/
theorem map_ids (s : List Int) :
    (panelMap s).map (·.id) = s.eraseDups ∧ ((panelMap s).map (·.id)).Nodup ∧
    ∀ a, a ∈ (panelMap s).map (·.id) ↔ a ∈ s := by
  rw [panelMap_ids]
  exact ⟨rfl, eraseDups_nodup s, fun a => List.mem_eraseDups⟩

/-- **the sample size is the number of individuals** (distinct ids), which for the sorted column is
also the number of groups the contiguity test counts -/
theorem sample_size (ids : List Int) :
    sampleSize (sortIds ids) = ids.toFinset.card ∧
    sampleSize (sortIds ids) = countGroups (sortIds ids) := by
  have h1 : sampleSize (sortIds ids) = ids.toFinset.card := by
    unfold sampleSize
    have := congrArg List.length (panelMap_ids (sortIds ids))
    rw [List.length_map] at this
    rw [this, ← toFinset_sortIds, ← List.toFinset_card_of_nodup (eraseDups_nodup _)]
    congr 1
    ext a
    simp
  refine ⟨h1, ?_⟩
  rw [h1]
  unfold countGroups
  rw [← List.toFinset_card_of_nodup (compress_sort_nodup ids), toFinset_compress, toFinset_sortIds]

example : panelMap [-3, -3, 2, 2, 7, 7, 7, 1000000]
    = [⟨-3, 0, 1⟩, ⟨2, 2, 3⟩, ⟨7, 4, 6⟩, ⟨1000000, 7, 7⟩] := by decide

/-! ### the trajectory value -/

/-- **the trajectory operator returns the product of the per-observation values over the rows it
visits** (positive values, as for probabilities: the engine computes `exp Σ log`) -/
theorem traj_product (f : ℕ → ℝ) (rows : List ℕ) (hpos : ∀ t ∈ rows, 0 < f t) :
    trajectory f rows = (rows.map f).prod :=
  trajectory_eq_prod f rows hpos

/-- … over exactly the rows of the individual: for an entry of the map of a sorted id column the
visited rows are the positions carrying the entry's id -/
theorem traj_rows (s : List Int) (hs : s.Pairwise (· ≤ ·)) (e : Entry) (he : e ∈ panelMap s) :
    e.rows = (List.range s.length).filter (fun i => decide (s[i]? = some e.id)) :=
  rows_eq_filter s hs e he

/-- **reordering the rows of one individual changes nothing** (no sign condition needed) -/
theorem traj_perm (f : ℕ → ℝ) (rows rows' : List ℕ) (hp : rows.Perm rows') :
    trajectory f rows' = trajectory f rows := by
  rw [trajectory_real, trajectory_real]
  congr 1
  exact (List.Perm.sum_eq (hp.map _)).symm

/-- **Table level: the value reported for each individual is the product over the rows that carry
its id, listed by ascending id** -/
theorem table_values {ρ : Type} (outer : ℝ → ℝ) (g : ρ → ℝ) (dflt : ρ) (t : List (Int × ρ))
    (hpos : ∀ p ∈ t, 0 < g p.2) :
    tableValues outer g dflt t =
      ((sortTable t).map (·.1)).eraseDups.map fun a =>
        (a, outer (((t.filter fun p => decide (p.1 = a)).map fun p => g p.2).prod)) := by
  unfold tableValues
  simp only
  set s := sortTable t with hs_def
  have hsorted := sortTable_sorted t
  unfold panelMap
  rw [List.map_map]
  apply List.map_congr_left
  intro a ha
  simp only [Function.comp]
  congr 2
  have ha' : a ∈ s.map (·.1) := List.mem_eraseDups.mp ha
  let e : Entry := ⟨a, minList (indicesOf (s.map (·.1)) a), maxList (indicesOf (s.map (·.1)) a)⟩
  have he : e ∈ panelMap (s.map (·.1)) := (mem_panelMap _ e).2 ⟨ha', rfl, rfl⟩
  have hrows := rows_eq_filter (s.map (·.1)) hsorted e he
  have hperm : s.Perm t := sortTable_perm t
  -- positivity on the visited rows
  have hposs : ∀ p ∈ s, 0 < g p.2 := fun p hp => hpos p (hperm.mem_iff.mp hp)
  have hget : ∀ i, i < s.length → (s.getD i (0, dflt)) ∈ s := by
    intro i hi
    rw [List.getD_eq_getElem?_getD, List.getElem?_eq_getElem hi]
    exact List.getElem_mem hi
  have hlen : (s.map (·.1)).length = s.length := List.length_map _
  change trajectory (fun i => g (s.getD i (0, dflt)).2) e.rows = _
  rw [trajectory_eq_prod]
  · rw [hrows, hlen]
    have hfilt : (List.range s.length).filter (fun i => decide ((s.map (·.1))[i]? = some e.id))
        = (List.range s.length).filter (fun i => (fun p : Int × ρ => decide (p.1 = a)) (s.getD i (0, dflt))) := by
      apply List.filter_congr
      intro i hi
      have hi' : i < s.length := List.mem_range.mp hi
      simp only [List.getElem?_map, List.getD_eq_getElem?_getD, List.getElem?_eq_getElem hi',
        Option.map_some, Option.getD_some, Option.some.injEq]
      rfl
    rw [hfilt]
    rw [prod_filter_positions s (0, dflt) (fun p => decide (p.1 = a)) (fun p => g p.2)]
    exact List.Perm.prod_eq ((hperm.filter _).map _)
  · intro i hi
    rw [hrows, List.mem_filter, List.mem_range, hlen] at hi
    exact hposs _ (hget i hi.1)

/-- **The result does not depend on the order in which individuals, or the rows of one
individual, appear in the table**: any permutation of the rows gives the same list of
(individual, value). -/
theorem table_perm_invariant {ρ : Type} (outer : ℝ → ℝ) (g : ρ → ℝ) (dflt : ρ)
    (t t' : List (Int × ρ)) (hp : t.Perm t') (hpos : ∀ p ∈ t, 0 < g p.2) :
    tableValues outer g dflt t' = tableValues outer g dflt t := by
  have hpos' : ∀ p ∈ t', 0 < g p.2 := fun p h => hpos p (hp.mem_iff.mpr h)
  rw [table_values outer g dflt t hpos, table_values outer g dflt t' hpos', sorted_ids_eq t t' hp]
  apply List.map_congr_left
  intro a _
  congr 2
  exact (List.Perm.prod_eq ((hp.filter _).map _)).symm

/-! ### Monte-Carlo on panel data -/

/-- **Inside a Monte-Carlo integral the same draw is used for all rows of an individual**: the
value is the mean over `r` of the product over the individual's rows of the integrand evaluated
with the draw vector `draws ind r` — the draw index is (individual, r), never the row. -/
theorem shared_draw (f : ℕ → (ℕ → ℝ) → ℝ) (draws : ℕ → ℕ → ℕ → ℝ) (ind : ℕ) (rows : List ℕ) (R : ℕ)
    (hpos : ∀ r, ∀ t ∈ rows, 0 < f t (draws ind r)) :
    mcPanel f draws ind rows R
      = ((List.range R).map fun r => (rows.map fun t => f t (draws ind r)).prod).sum / (R : ℝ) := by
  rw [mcPanel_real]
  congr 2
  apply List.map_congr_left
  intro r _
  exact trajectory_eq_prod _ rows (hpos r)

/-- the value for an individual depends on the draw table only through that individual's slice -/
theorem draws_of_individual_only (f : ℕ → (ℕ → ℝ) → ℝ) (d d' : ℕ → ℕ → ℕ → ℝ) (ind : ℕ)
    (rows : List ℕ) (R : ℕ) (h : ∀ r k, d ind r k = d' ind r k) :
    mcPanel f d ind rows R = mcPanel f d' ind rows R := by
  have : ∀ r, d ind r = d' ind r := fun r => funext (h r)
  unfold mcPanel
  simp only [this]

/-- reordering the rows of the individual does not change the simulated value -/
theorem mc_perm (f : ℕ → (ℕ → ℝ) → ℝ) (draws : ℕ → ℕ → ℕ → ℝ) (ind : ℕ) (rows rows' : List ℕ) (R : ℕ)
    (hp : rows.Perm rows') : mcPanel f draws ind rows' R = mcPanel f draws ind rows R := by
  rw [mcPanel_real, mcPanel_real]
  congr 2
  apply List.map_congr_left
  intro r _
  exact traj_perm _ rows rows' hp

/-! ### placement rule -/

/-- occurrences of variables that are not below a trajectory operator -/
inductive VarOutside : PExpr → String → Prop where
  | var (n) : VarOutside (.var n) n
  | un (op e n) : VarOutside e n → VarOutside (.un op e) n
  | binL (op l r n) : VarOutside l n → VarOutside (.bin op l r) n
  | binR (op l r n) : VarOutside r n → VarOutside (.bin op l r) n
  | mc (e n) : VarOutside e n → VarOutside (.mc e) n

/-- **`check_panel_trajectory` reports exactly the variables used outside every
`PanelLikelihoodTrajectory`** (sound and complete over all formulas of the family) -/
theorem audit_panel (e : PExpr) (n : String) : n ∈ checkPanelTrajectory e ↔ VarOutside e n := by
  induction e with
  | num v => simp only [checkPanelTrajectory, List.not_mem_nil, false_iff]; intro h; cases h
  | beta b => simp only [checkPanelTrajectory, List.not_mem_nil, false_iff]; intro h; cases h
  | var m =>
    simp only [checkPanelTrajectory, List.mem_singleton]
    constructor
    · rintro rfl; exact .var _
    · intro h; cases h; rfl
  | draws d => simp only [checkPanelTrajectory, List.not_mem_nil, false_iff]; intro h; cases h
  | un op e ih =>
    simp only [checkPanelTrajectory]
    rw [ih]
    exact ⟨fun h => .un _ _ _ h, fun h => by cases h; assumption⟩
  | bin op l r ihl ihr =>
    simp only [checkPanelTrajectory, List.mem_append]
    rw [ihl, ihr]
    constructor
    · rintro (h | h)
      · exact .binL _ _ _ _ h
      · exact .binR _ _ _ _ h
    · intro h
      cases h with
      | binL _ _ _ _ h => exact Or.inl h
      | binR _ _ _ _ h => exact Or.inr h
  | traj e _ => simp only [checkPanelTrajectory, List.not_mem_nil, false_iff]; intro h; cases h
  | mc e ih =>
    simp only [checkPanelTrajectory]
    rw [ih]
    exact ⟨fun h => .mc _ _ h, fun h => by cases h; assumption⟩

example : checkPanelTrajectory (.bin "+" (.un "log" (.traj (.var "P"))) (.bin "*" (.var "X") (.beta "b")))
    = ["X"] := by decide

/-! ### Monte-Carlo placement rule -/

/-- `a` is the argument of some `MonteCarlo` node of the formula (at any depth, also below a
trajectory operator) -/
inductive McArg : PExpr → PExpr → Prop where
  | here (c) : McArg (.mc c) c
  | mc (c a) : McArg c a → McArg (.mc c) a
  | un (op e a) : McArg e a → McArg (.un op e) a
  | binL (op l r a) : McArg l a → McArg (.bin op l r) a
  | binR (op l r a) : McArg r a → McArg (.bin op l r) a
  | traj (e a) : McArg e a → McArg (.traj e) a

/-- **`Expression.audit` on panel data lists no error iff every Monte-Carlo integral of the formula
encloses a trajectory operator** (so that the integral is taken over the product of the rows of
the individual: one draw shared by all its rows), contains a draw and no other integral. -/
theorem audit_mc (e : PExpr) :
    auditErrors e = 0 ↔
      ∀ a, McArg e a → hasTraj a = true ∧ hasDraws a = true ∧ hasMC a = false := by
  induction e with
  | num v => simp only [auditErrors, true_iff]; intro a h; cases h
  | beta b => simp only [auditErrors, true_iff]; intro a h; cases h
  | var m => simp only [auditErrors, true_iff]; intro a h; cases h
  | draws d => simp only [auditErrors, true_iff]; intro a h; cases h
  | un op e ih =>
    simp only [auditErrors]
    rw [ih]
    exact ⟨fun h a ha => by cases ha with | un _ _ _ h' => exact h a h',
      fun h a ha => h a (.un _ _ _ ha)⟩
  | bin op l r ihl ihr =>
    simp only [auditErrors, Nat.add_eq_zero_iff]
    rw [ihl, ihr]
    constructor
    · rintro ⟨h1, h2⟩ a ha
      cases ha with
      | binL _ _ _ _ h => exact h1 a h
      | binR _ _ _ _ h => exact h2 a h
    · intro h
      exact ⟨fun a ha => h a (.binL _ _ _ _ ha), fun a ha => h a (.binR _ _ _ _ ha)⟩
  | traj e ih =>
    simp only [auditErrors]
    rw [ih]
    exact ⟨fun h a ha => by cases ha with | traj _ _ h' => exact h a h',
      fun h a ha => h a (.traj _ _ ha)⟩
  | mc e ih =>
    simp only [auditErrors, Nat.add_eq_zero_iff, ite01, ite10]
    rw [ih]
    constructor
    · rintro ⟨⟨⟨h0, h1⟩, h2⟩, h3⟩ a ha
      cases ha with
      | here => exact ⟨h1, h2, h3⟩
      | mc _ _ h => exact h0 a h
    · intro h
      obtain ⟨h1, h2, h3⟩ := h e (.here e)
      exact ⟨⟨⟨fun a ha => h a (.mc _ _ ha), h1⟩, h2⟩, h3⟩

/-- a formula accepted by `BIOGEME(database, formula)` on panel data has every variable below a
trajectory operator and every Monte-Carlo integral around one -/
theorem accepted_formula (e : PExpr) (h : initAccepts e = true) :
    (∀ n, ¬ VarOutside e n) ∧ (∀ a, McArg e a → hasTraj a = true) := by
  unfold initAccepts at h
  simp only [Bool.and_eq_true, List.isEmpty_iff, beq_iff_eq] at h
  obtain ⟨⟨h1, _⟩, h3⟩ := h
  refine ⟨fun n hn => ?_, fun a ha => ((audit_mc e).1 h3 a ha).1⟩
  have := (audit_panel e n).2 hn
  rw [h1] at this
  exact List.not_mem_nil this

/-- the integral around the trajectory is accepted; an integral taken row by row inside the
trajectory is refused even when its integrand has no variable; so is an integral next to it -/
example : initAccepts (.un "log" (.mc (.traj (.bin "*" (.var "P") (.un "exp" (.draws "xi")))))) = true := by decide
example : initAccepts (.un "log" (.traj (.bin "*" (.var "P") (.mc (.un "exp" (.draws "xi")))))) = false := by decide
example : initAccepts (.bin "*" (.traj (.var "P")) (.mc (.draws "xi"))) = false := by decide

/-! ### the table changes between two evaluations -/

/-- **The map is rebuilt before each evaluation**: whatever map the database holds (built for an
earlier table), an evaluation reports the values of the *current* table, and leaves the map of the
current table behind. -/
theorem evaluate_current_table {ρ : Type} (outer : ℝ → ℝ) (g : ρ → ℝ) (dflt : ρ) (st : DbState ρ) :
    (st.evaluate outer g dflt).2 = tableValues outer g dflt st.table ∧
    (st.evaluate outer g dflt).1.map = panelMap ((sortTable st.table).map (·.1)) :=
  ⟨rfl, rfl⟩

/-- after the table was replaced by `t` (rows appended, dropped, relabelled, reordered - any `t`),
the next evaluation returns, per individual of `t`, the product over exactly the rows of `t` that
carry its id -/
theorem eval_after_edit {ρ : Type} (outer : ℝ → ℝ) (g : ρ → ℝ) (dflt : ρ) (st : DbState ρ)
    (t : List (Int × ρ)) (hpos : ∀ p ∈ t, 0 < g p.2) :
    ((st.setTable t).evaluate outer g dflt).2 =
      ((sortTable t).map (·.1)).eraseDups.map fun a =>
        (a, outer (((t.filter fun p => decide (p.1 = a)).map fun p => g p.2).prod)) := by
  rw [(evaluate_current_table outer g dflt (st.setTable t)).1]
  exact table_values outer g dflt t hpos

/-- **over histories**: in a sequence table₁, evaluate, table₂, evaluate, … the k-th evaluation is
that of the k-th table alone; nothing of the earlier tables or maps survives -/
theorem history_values {ρ : Type} (outer : ℝ → ℝ) (g : ρ → ℝ) (dflt : ρ) (st : DbState ρ)
    (ts : List (List (Int × ρ))) :
    DbState.history outer g dflt st ts =
      ts.map fun t => (panelMap ((sortTable t).map (·.1)), tableValues outer g dflt t) := by
  induction ts generalizing st with
  | nil => rfl
  | cons t ts ih =>
    simp only [DbState.history, List.map_cons]
    rw [ih]
    rfl

theorem history_free {ρ : Type} (outer : ℝ → ℝ) (g : ρ → ℝ) (dflt : ρ) (st st' : DbState ρ)
    (ts : List (List (Int × ρ))) :
    DbState.history outer g dflt st ts = DbState.history outer g dflt st' ts := by
  rw [history_values, history_values]

/-- the map a database holds after `setTable` is the old one: handing it to the engine without
rebuilding it would not describe the table (two rows appended to the last individual) -/
example :
    let st : DbState Unit := ⟨[(7, ()), (7, ()), (12, ())], panelMap [7, 7, 12]⟩
    (st.setTable [(7, ()), (7, ()), (12, ()), (12, ()), (12, ())]).map = [⟨7, 0, 1⟩, ⟨12, 2, 2⟩] ∧
    panelMap [7, 7, 12, 12, 12] = [⟨7, 0, 1⟩, ⟨12, 2, 4⟩] := by
  decide

/-! ### scaled quantities -/

/-- **the sample size by which the scaled log likelihood (and its derivatives) are divided is the
number of individuals**, not the number of rows -/
theorem scaled_by_individuals (ids : List Int) (v : ℝ) :
    scaledBy (sortIds ids) v = v / (ids.toFinset.card : ℝ) := by
  unfold scaledBy
  rw [(sample_size ids).1]
  simp only [NumR.div_real, NumR.nat_real]

example : sampleSize [-3, 7, 7, 7, 12, 12] = 3 ∧ [-3, 7, 7, 7, 12, 12].length = 6 := by decide


/-! ## round 3: more of the code -/

/-! ### count_number_of_groups as written (`!= shift(1)`, `cumsum`, `unique`) -/

/-- **the code's counter returns the number of runs of equal ids, for every id column**: the value
before the first row is NaN, so the first row starts a group whatever its id (0, negative, …) -/
theorem count_groups_code (ids : List Int) : countGroupsCode ids = countGroups ids :=
  countGroupsCode_eq ids

/-- hence the test of `Database.panel`, with the counter as written, accepts exactly the contiguous tables -/
theorem contiguous_iff_code (ids : List Int) : panelOkCode ids = true ↔ Contiguous ids := by
  unfold panelOkCode
  rw [count_groups_code, count_groups_code]
  exact contiguous_iff ids

example : countGroupsCode [0, 0, 3, 3, -2] = 3 ∧ countGroupsCode [3, 3, 0, 0, 0, 2, 1, 1] = 4
    ∧ countGroupsCode [] = 0 ∧ countGroupsCode [0] = 1 := by decide
example : panelOkCode [3, 3, 0, 0, 0, 2, 1, 1] = true ∧ panelOkCode [5, 5, 9, 9, 9, 0, 2, 2] = true
    ∧ panelOkCode [0, 1, 0] = false := by
  rw [Bool.eq_false_iff, ne_eq, contiguous_iff_code, contiguous_iff_code, contiguous_iff_code]
  unfold Contiguous; decide

/-- a fill value in place of the NaN before the first row is *not* equivalent: with fill value 0 a
contiguous table whose smallest id is 0, not in the first block, would be refused -/
theorem fill_value_counter_differs :
    countGroupsFill 0 [3, 3, 0, 0, 2] ≠ countGroupsFill 0 [0, 0, 2, 3, 3] ∧
    countGroupsCode [3, 3, 0, 0, 2] = countGroupsCode [0, 0, 2, 3, 3] := by decide

/-! ### several trajectory operators in one formula (latent classes) -/

/-- **every trajectory operator of a formula returns the product over exactly the rows of the
individual**, whatever combines them afterwards (no additivity needed) -/
theorem table_values_multi {ρ : Type} (comb : List ℝ → ℝ) (gs : List (ρ → ℝ)) (dflt : ρ)
    (t : List (Int × ρ)) (hpos : ∀ g ∈ gs, ∀ p ∈ t, 0 < g p.2) :
    tableValuesMulti comb gs dflt t =
      ((sortTable t).map (·.1)).eraseDups.map fun a =>
        (a, comb (gs.map fun g => ((t.filter fun p => decide (p.1 = a)).map fun p => g p.2).prod)) := by
  unfold tableValuesMulti
  simp only
  unfold panelMap
  rw [List.map_map]
  apply List.map_congr_left
  intro a ha
  simp only [Function.comp]
  congr 2
  apply List.map_congr_left
  intro g hg
  exact traj_entry_table g dflt t a (List.mem_eraseDups.mp ha) (hpos g hg)

/-- … and the list (individual, value) does not depend on the order of the rows of the table -/
theorem table_multi_perm_invariant {ρ : Type} (comb : List ℝ → ℝ) (gs : List (ρ → ℝ)) (dflt : ρ)
    (t t' : List (Int × ρ)) (hp : t.Perm t') (hpos : ∀ g ∈ gs, ∀ p ∈ t, 0 < g p.2) :
    tableValuesMulti comb gs dflt t' = tableValuesMulti comb gs dflt t := by
  have hpos' : ∀ g ∈ gs, ∀ p ∈ t', 0 < g p.2 := fun g hg p h => hpos g hg p (hp.mem_iff.mpr h)
  rw [table_values_multi comb gs dflt t hpos, table_values_multi comb gs dflt t' hpos', sorted_ids_eq t t' hp]
  apply List.map_congr_left
  intro a _
  congr 2
  apply List.map_congr_left
  intro g _
  exact (List.Perm.prod_eq ((hp.filter _).map _)).symm

/-- the latent-class log likelihood of an individual: `log(w·Π f₁ + (1−w)·Π f₂)`, both products over
the rows of that individual -/
theorem latent_class_value {ρ : Type} (w : ℝ) (g1 g2 : ρ → ℝ) (dflt : ρ) (t : List (Int × ρ))
    (h1 : ∀ p ∈ t, 0 < g1 p.2) (h2 : ∀ p ∈ t, 0 < g2 p.2) :
    tableValuesMulti (latentClass w) [g1, g2] dflt t =
      ((sortTable t).map (·.1)).eraseDups.map fun a =>
        (a, Real.log (w * ((t.filter fun p => decide (p.1 = a)).map fun p => g1 p.2).prod
          + (1 - w) * ((t.filter fun p => decide (p.1 = a)).map fun p => g2 p.2).prod)) := by
  rw [table_values_multi]
  · apply List.map_congr_left
    intro a _
    simp [latentClass]
  · intro g hg
    simp only [List.mem_cons, List.not_mem_nil, or_false] at hg
    rcases hg with rfl | rfl
    · exact h1
    · exact h2

/-- the hypotheses are satisfiable: two classes, three rows of two individuals given in two orders -/
example : tableValuesMulti (latentClass (1 / 4)) [fun x : ℝ => Real.exp x, fun x => Real.exp (-x)] 0
      [(-3, 2), (7, 1), (7, 3)]
    = tableValuesMulti (latentClass (1 / 4)) [fun x : ℝ => Real.exp x, fun x => Real.exp (-x)] 0
      [(7, 1), (-3, 2), (7, 3)] :=
  table_multi_perm_invariant _ _ _ _ _ (List.Perm.swap _ _ _) (by
    intro g hg p _
    simp only [List.mem_cons, List.not_mem_nil, or_false] at hg
    rcases hg with rfl | rfl <;> exact Real.exp_pos _)

/-! ### Monte-Carlo at table level: which draws an individual receives -/

/-- **the individual at position `ind` of the map of the sorted table receives `draws ind r` for all
its rows**: value = mean over `r` of the product over the rows of the table that carry its id -/
theorem table_values_mc {ρ : Type} (outer : ℝ → ℝ) (g : ρ → (ℕ → ℝ) → ℝ) (dflt : ρ)
    (draws : ℕ → ℕ → ℕ → ℝ) (R : ℕ) (t : List (Int × ρ)) (hpos : ∀ p ∈ t, ∀ xi, 0 < g p.2 xi) :
    tableValuesMC outer g dflt draws R t =
      (((sortTable t).map (·.1)).eraseDups.zipIdx).map fun q =>
        (q.1, outer (((List.range R).map fun r =>
          ((t.filter fun p => decide (p.1 = q.1)).map fun p => g p.2 (draws q.2 r)).prod).sum / (R : ℝ))) := by
  unfold tableValuesMC
  simp only
  unfold panelMap
  rw [List.zipIdx_map, List.map_map]
  apply List.map_congr_left
  rintro ⟨a, ind⟩ hq
  have ha : a ∈ (sortTable t).map (·.1) := List.mem_eraseDups.mp (List.fst_mem_of_mem_zipIdx hq)
  simp only [Function.comp, Prod.map_fst, Prod.map_snd, id_eq]
  congr 2
  rw [mcPanel_real]
  congr 2
  apply List.map_congr_left
  intro r _
  exact traj_entry_table (fun x => g x (draws ind r)) dflt t a ha (fun p hp => hpos p hp _)

/-- **with the same draw table, the simulated value of every individual is the same for every order
of the individuals and of their rows in the table** (the draw row goes with the rank of the id, not
with the place of the block in the table) -/
theorem table_mc_perm_invariant {ρ : Type} (outer : ℝ → ℝ) (g : ρ → (ℕ → ℝ) → ℝ) (dflt : ρ)
    (draws : ℕ → ℕ → ℕ → ℝ) (R : ℕ) (t t' : List (Int × ρ)) (hp : t.Perm t')
    (hpos : ∀ p ∈ t, ∀ xi, 0 < g p.2 xi) :
    tableValuesMC outer g dflt draws R t' = tableValuesMC outer g dflt draws R t := by
  have hpos' : ∀ p ∈ t', ∀ xi, 0 < g p.2 xi := fun p h => hpos p (hp.mem_iff.mpr h)
  rw [table_values_mc outer g dflt draws R t hpos, table_values_mc outer g dflt draws R t' hpos',
    sorted_ids_eq t t' hp]
  apply List.map_congr_left
  intro q _
  congr 4
  apply List.map_congr_left
  intro r _
  exact (List.Perm.prod_eq ((hp.filter _).map _)).symm

example (draws : ℕ → ℕ → ℕ → ℝ) :
    tableValuesMC Real.log (fun (x : ℝ) xi => Real.exp (x * xi 0)) 0 draws 3 [(-3, 2), (7, 1), (7, 3)]
    = tableValuesMC Real.log (fun (x : ℝ) xi => Real.exp (x * xi 0)) 0 draws 3 [(7, 1), (-3, 2), (7, 3)] :=
  table_mc_perm_invariant _ _ _ _ _ _ _ (List.Perm.swap _ _ _) (fun _ _ _ => Real.exp_pos _)

/-- **the lines of the map (hence the rows of the draw table) follow the ascending order of the ids**,
whatever the order of the blocks in the table given: position `k` of the map is the individual with
the `k`-th smallest id -/
theorem map_ascending (ids : List Int) :
    ((panelMap (sortIds ids)).map (·.id)).Pairwise (· < ·) := by
  rw [panelMap_ids]
  exact eraseDups_sorted_lt _ (sortIds_sorted ids)

example : (panelMap [-3, -3, 0, 2, 2, 7]).map (·.id) = [-3, 0, 2, 7] := by decide

/-! ### bootstrap on panel data -/

/-- **a bootstrap sample is made of whole individuals**: every line of the resampled map is a line of
the map of the database (so, by `map_block`, it holds exactly the rows of its id) -/
theorem bootstrap_whole_individuals (s : List Int) (hs : s.Pairwise (· ≤ ·)) (picks : List Nat)
    (e : Entry) (he : e ∈ resample (panelMap s) picks) (i : Nat) (hi : i < s.length) :
    (e.first ≤ i ∧ i ≤ e.last) ↔ s[i]? = some e.id :=
  map_block s hs e (mem_resample _ _ _ he) i hi

/-- the log likelihood of a bootstrap sample: the values of the picked individuals, one term per pick
(an individual picked twice counts twice), and the sample has as many lines as picks -/
theorem bootstrap_loglik (val : Entry → ℝ) (m : List Entry) (picks : List Nat) (d : Entry)
    (h : ∀ i ∈ picks, i < m.length) :
    engineLogLik val (resample m picks) = (picks.map fun i => val (m.getD i d)).sum ∧
    (resample m picks).length = picks.length := by
  rw [resample_eq_map m picks d h]
  unfold engineLogLik
  rw [NumR.sum_real, List.map_map, List.length_map]
  exact ⟨rfl, rfl⟩

example : resample (panelMap [-3, -3, 2, 7, 7, 7]) [2, 0, 2] = [⟨7, 3, 5⟩, ⟨-3, 0, 1⟩, ⟨7, 3, 5⟩] := by decide

/-- **over histories of public calls on one object** (likelihood, simulate, estimate with or without
bootstrap, in any order and number): every reported evaluation runs on the full map of the database;
the resampled maps live inside the bootstrap loop only -/
theorem session_full_map (m : List Entry) (ops : List SOp) :
    ∀ used ∈ (Sess.init m).run ops, used = m := by
  suffices h : ∀ (s : Sess), s.engMap = s.dbMap → ∀ used ∈ s.run ops, used = s.dbMap from
    h (Sess.init m) rfl
  induction ops with
  | nil => intro s _ used hu; simp [Sess.run] at hu
  | cons op ops ih =>
    intro s hs used hu
    simp only [Sess.run, List.mem_cons] at hu
    have key : (s.step op).2.1 = s.dbMap ∧ (s.step op).1.engMap = (s.step op).1.dbMap ∧
        (s.step op).1.dbMap = s.dbMap := by
      cases op with
      | likelihood => exact ⟨hs, hs, rfl⟩
      | simulate => exact ⟨rfl, rfl, rfl⟩
      | estimate boot =>
        refine ⟨hs, ?_, ?_⟩
        · simp only [Sess.step]
          cases boot with
          | nil => simpa [Sess.bootstrapLoop] using hs
          | cons p ps => simp
        · simp only [Sess.step]
          cases boot with
          | nil => simp [Sess.bootstrapLoop]
          | cons p ps => simp [bootstrapLoop_dbMap]
    rcases hu with rfl | hu
    · exact key.1
    · rw [← key.2.2]
      exact ih (s.step op).1 key.2.1 used hu

example : (Sess.init (panelMap [1, 1, 2, 3])).run [.simulate, .estimate [[2, 2, 0], [1, 1, 1]], .likelihood, .simulate]
    = List.replicate 4 (panelMap [1, 1, 2, 3]) := by decide

/-! ### one object, the table of its database changed after the object was created -/

/-- **whatever an evaluation on an existing object returns is the value of the table as it is now**:
over every history of assignments to `database.data`, each followed by an evaluation on the SAME
object, an evaluation either is refused or returns `tableValues` of the current table -/
theorem object_history_current {ρ : Type} [BEq ρ] [LawfulBEq ρ] (outer : ℝ → ℝ) (g : ρ → ℝ) (dflt : ρ)
    (st : DbState ρ) (ts : List (List (Int × ρ))) (k : ℕ) (t : List (Int × ρ)) (vals : List (Int × ℝ))
    (ht : ts[k]? = some t)
    (hv : (Obj.history outer g dflt (Obj.create st) ts)[k]? = some (some vals)) :
    vals = tableValues outer g dflt t :=
  obj_history_aux outer g dflt ts (Obj.create st) rfl k t vals ht hv

/-- a table that is only reordered is still evaluated; rows dropped: refused -/
example : (Obj.history (α := ℝ) id (fun (x : ℝ) => x) 0 (Obj.create ⟨[(7, 1), (3, 2)], []⟩)
    [[(3, 2), (7, 1)], [(3, 2)]]).map Option.isSome = [true, false] := by
  simp [Obj.history, Obj.create, Obj.evaluate, Obj.setTable, DbState.rebuild, DbState.setTable, sortTable,
    List.mergeSort, List.merge]

/-! ### scaled output and scores by individuals -/

/-- **all four quantities returned with `scaled=True` are divided by the number of individuals** -/
theorem scaled_output_by_individuals (ids : List Int) (f : ℝ) (g h b : List ℝ) :
    scaledOutput (sortIds ids) f g h b =
      (f / (ids.toFinset.card : ℝ), g.map (· / (ids.toFinset.card : ℝ)),
        h.map (· / (ids.toFinset.card : ℝ)), b.map (· / (ids.toFinset.card : ℝ))) := by
  have h1 : scaledBy (α := ℝ) (sortIds ids) = fun v => v / (ids.toFinset.card : ℝ) :=
    funext (scaled_by_individuals ids)
  unfold scaledOutput
  rw [h1]

/-- the BHHH matrix (one parameter) on panel data is the sum over the individuals of the square of the
individual's score, the score being summed over the rows `first … last` first -/
theorem bhhh_by_individuals (x : ℕ → ℝ) (m : List Entry) :
    bhhhPanel x m = (m.map fun e => ((e.rows.map x).sum) ^ 2).sum ∧
    gradPanel x m = (m.map fun e => (e.rows.map x).sum).sum := by
  unfold bhhhPanel gradPanel entrySum
  refine ⟨?_, ?_⟩
  · rw [NumR.sum_real]
    congr 1
    apply List.map_congr_left
    intro e _
    rw [NumR.sum_real, NumR.mul_real, pow_two]
  · rw [NumR.sum_real]
    congr 1
    apply List.map_congr_left
    intro e _
    rw [NumR.sum_real]

example : (panelMap [-3, -3, 2]).map (·.rows) = [[0, 1], [2]] := by decide

end C09
