/-
C10 — simulated and numerical integrals equal the average / integral they denote.
Property theorems only (helper lemmas in Proofs/Integrals.lean, Proofs/IntegralsReal.lean,
Proofs/Gaussian.lean).

`generateDraws` models `Database.generate_draws` (dispatch native → user → error, shape test,
stack, moveaxis), `drawId` the numbering of `IdManager.prepare`, `monteCarlo` the engine's
Monte-Carlo loop with `bioDraws` reading `table[obs][r][drawId]` (engine modelled, not verified),
`diffBeta`/`diffVar` the derivative operator on the formula family of this property, `allLiterals` /
`literalIndex` the global numbering of `IdManager.prepare` and the index written by
`Derive.get_signature`, `diffLit` / `deriveNamed` the engine's derivative w.r.t. a literal id.  The Gaussian
closed forms are the oracle family against which the numerical-integration operator is compared
(its quadrature error for general integrands is not proved: PARTIAL).

Round 3 (Model/McSession.lean, Proofs/McSession.lean): the generators have a state (numpy's global generator)
threaded through the loop of `generate_draws` (`generateDrawsS`, `stateBefore`); the two call sites of
`generate_draws` (`IdManager.prepare`, `BIOGEME._generate_draws`) pass `callNames` = the sorted names, and that
order is forced by the `drawId` numbering; `initBiogeme` = `BIOGEME.__init__` (seed policy, three generation
rounds, the second one copied to the engine); a session is a `List Op` fold over a world (global generator,
`Database.theDraws`, the objects created so far): objects created / evaluated / `number_of_draws` assigned,
expressions evaluated with `prepare_ids=True`, functions made by `create_function` and called later, numbers
taken from the generator.  The literal id of each of the five groups of the numbering.
-/
import Model.Integrals
import Proofs.Integrals
import Proofs.IntegralsReal
import Proofs.Gaussian
import Model.McSession
import Proofs.McSession

open Integrals

namespace C10

/-! ### the draw table -/

/-- **Draw-table indexing**: when `generate_draws` succeeds, entry `[n][r][k]` of the table it
returns is entry `[n][r]` of what the generator serving the declared type of the `k`-th name
returned — for every number of variables, observations and draws. -/
theorem table_index {α : Type} (dflt : α) (native user : List String) (typeOf : String → String)
    (gen : Source → Nat → Nat → List (List α)) (names : List String) (N R : Nat)
    (table : List (List (List α)))
    (h : generateDraws dflt native user typeOf gen names N R = .ok table)
    (n r k : Nat) (hn : n < N) (hr : r < R) (hk : k < names.length) :
    ∃ src, dispatch native user (typeOf names[k]) = .ok src ∧
      shapeOk (gen src N R) N R = true ∧
      entry dflt table n r k = ((gen src N R).getD n []).getD r dflt := by
  unfold generateDraws at h
  cases hc : collect native user typeOf gen N R names with
  | error e => rw [hc] at h; cases h
  | ok stack =>
    rw [hc] at h
    simp only at h
    cases h
    obtain ⟨hl, hall⟩ := collect_ok native user typeOf gen N R names stack hc
    obtain ⟨src, h1, h2, h3⟩ := hall k hk
    refine ⟨src, h1, h3, ?_⟩
    rw [entry_moveAxis dflt stack N R n r k hn hr (by omega), h2]

/-- **Variable A is fed series A**: with the names numbered as the id manager numbers them
(sorted, `drawId` = position), the column read by the draw variable `name` holds the series of
the generator registered for *its own* declared type. -/
theorem own_series {α : Type} (dflt : α) (native user : List String) (typeOf : String → String)
    (gen : Source → Nat → Nat → List (List α)) (declared : List String) (N R : Nat)
    (table : List (List (List α)))
    (h : generateDraws dflt native user typeOf gen (sortNames declared) N R = .ok table)
    (name : String) (hname : name ∈ declared) (n r : Nat) (hn : n < N) (hr : r < R) :
    ∃ src, dispatch native user (typeOf name) = .ok src ∧
      entry dflt table n r (drawId declared name) = ((gen src N R).getD n []).getD r dflt := by
  have hk := drawId_lt declared name hname
  obtain ⟨src, h1, _, h3⟩ :=
    table_index dflt native user typeOf gen (sortNames declared) N R table h n r
      (drawId declared name) hn hr hk
  rw [sortNames_drawId declared name hname] at h1
  exact ⟨src, h1, h3⟩

/-- two different draw variables never share a column -/
theorem distinct_columns (declared : List String) (a b : String) (ha : a ∈ declared)
    (hb : b ∈ declared) (hab : a ≠ b) : drawId declared a ≠ drawId declared b :=
  fun h => hab (drawId_inj declared a b ha hb h)

/-- two variables, two observations, two draws: `[k][n][r] ↦ [n][r][k]` -/
example : entry 0 (moveAxis 0 [[[1, 2], [3, 4]], [[5, 6], [7, 8]]] 2 2) 1 0 1 = 7 := by decide
example : moveAxis 0 [[[1, 2], [3, 4]], [[5, 6], [7, 8]]] 2 2 = [[[1, 5], [2, 6]], [[3, 7], [4, 8]]] := by
  decide

/-! ### generator dispatch -/

/-- **native name → catalogue entry, else user generator, else error** -/
theorem generator_dispatch (native user : List String) (ty : String) :
    (ty ∈ native → dispatch native user ty = .ok (.native ty)) ∧
    (ty ∉ native → ty ∈ user → dispatch native user ty = .ok (.user ty)) ∧
    (ty ∉ native → ty ∉ user → dispatch native user ty = .error .unknownType) :=
  ⟨dispatch_native native user ty, dispatch_user native user ty, dispatch_unknown native user ty⟩

/-- **reserved names are refused** by `set_random_number_generators`, and after a successful call
no user generator shadows a native one (so the dispatch is unambiguous) -/
theorem reserved_refused (native rng : List String) :
    ((∃ k ∈ native, k ∈ rng) → setUserGenerators native rng = .error .reservedKeyword) ∧
    (∀ user, setUserGenerators native rng = .ok user → user = rng ∧ ∀ k ∈ native, k ∉ user) := by
  unfold setUserGenerators
  by_cases hany : native.any (fun k => rng.contains k) = true
  · rw [if_pos hany]
    exact ⟨fun _ => rfl, fun user h => by cases h⟩
  · rw [if_neg hany]
    refine ⟨fun ⟨k, hk, hr⟩ =>
      absurd (List.any_eq_true.mpr ⟨k, hk, by simpa using hr⟩) hany, ?_⟩
    intro user h
    cases h
    exact ⟨rfl, fun k hk hr => hany (List.any_eq_true.mpr ⟨k, hk, by simpa using hr⟩)⟩

/-- **a generator returning the wrong shape is refused** (first offending variable) -/
theorem wrong_shape_refused {α : Type} (dflt : α) (native user : List String)
    (typeOf : String → String) (gen : Source → Nat → Nat → List (List α)) (names : List String)
    (N R k : Nat) (hk : k < names.length)
    (hprev : ∀ j (hj : j < k), ∃ src, dispatch native user (typeOf (names[j]'(by omega))) = .ok src ∧
      shapeOk (gen src N R) N R = true)
    (src : Source) (hd : dispatch native user (typeOf names[k]) = .ok src)
    (hbad : shapeOk (gen src N R) N R = false) :
    generateDraws dflt native user typeOf gen names N R = .error .wrongShape := by
  unfold generateDraws
  rw [collect_error_shape native user typeOf gen N R names k hk hprev src hd hbad]

/-- **an unknown draw type is refused** -/
theorem unknown_type_refused {α : Type} (dflt : α) (native user : List String)
    (typeOf : String → String) (gen : Source → Nat → Nat → List (List α)) (names : List String)
    (N R k : Nat) (hk : k < names.length)
    (hprev : ∀ j (hj : j < k), ∃ src, dispatch native user (typeOf (names[j]'(by omega))) = .ok src ∧
      shapeOk (gen src N R) N R = true)
    (h1 : typeOf names[k] ∉ native) (h2 : typeOf names[k] ∉ user) :
    generateDraws dflt native user typeOf gen names N R = .error .unknownType := by
  unfold generateDraws
  rw [collect_error_unknown native user typeOf gen N R names k hk hprev
    (dispatch_unknown native user _ h1 h2)]

example : dispatch ["NORMAL", "UNIFORM"] ["MINE"] "MINE" = .ok (.user "MINE") := by decide
example : setUserGenerators ["NORMAL", "UNIFORM"] ["MINE", "NORMAL"] = .error .reservedKeyword := by decide
example : shapeOk [[1, 2, 3], [4, 5, 6]] 2 3 = true ∧ shapeOk [[1, 2, 3], [4, 5, 6]] 3 2 = false := by decide

/-! ### the Monte-Carlo operator -/

/-- **The Monte-Carlo operator returns the arithmetic mean over the `R` draws of its argument**,
the draw variable `name` being replaced by entry `[n][r][drawId name]` of the table. -/
theorem mc_mean (declared : List String) (table : List (List (List ℝ))) (betas row : List ℝ)
    (n R : ℕ) (e : IExpr) :
    monteCarlo declared table betas row n R e
      = ((List.range R).map fun r =>
          evalI betas row (fun name => entry 0 table n r (drawId declared name)) e).sum / (R : ℝ) :=
  monteCarlo_real declared table betas row n R e

/-- … **every named draw variable replaced by that observation's r-th draw of its own series**:
on the table produced by `generate_draws`, the value substituted for `name` at draw `r` is
`series(type of name)[n][r]`. -/
theorem mc_own_series (native user : List String) (typeOf : String → String)
    (gen : Source → Nat → Nat → List (List ℝ)) (declared : List String) (N R : ℕ)
    (table : List (List (List ℝ)))
    (h : generateDraws (0 : ℝ) native user typeOf gen (sortNames declared) N R = .ok table)
    (n : ℕ) (hn : n < N) (name : String) (hname : name ∈ declared) (r : ℕ) (hr : r < R) :
    ∃ src, dispatch native user (typeOf name) = .ok src ∧
      entry (0 : ℝ) table n r (drawId declared name) = ((gen src N R).getD n []).getD r 0 :=
  own_series (0 : ℝ) native user typeOf gen declared N R table h name hname n r hn hr

/-- the r-th draw of observation `n` of the series the registered generator produced for the declared
type of `name` (0 if the type is unknown — excluded by the hypotheses below) -/
noncomputable def ownDraw (native user : List String) (typeOf : String → String)
    (gen : Source → Nat → Nat → List (List ℝ)) (N R n r : ℕ) (name : String) : ℝ :=
  match dispatch native user (typeOf name) with
  | .ok src => ((gen src N R).getD n []).getD r 0
  | .error _ => 0

/-- **End to end (first sentence of the property).**  On the table produced by `generate_draws` for
the draw variables of the formulas, the Monte-Carlo operator returns for observation `n` the
arithmetic mean over the `R` draws of its argument evaluated with every named draw variable replaced
by that observation's `r`-th draw of that variable's own series — exactly what the generator
registered for the variable's declared type produced. -/
theorem mc_denotes_mean (native user : List String) (typeOf : String → String)
    (gen : Source → Nat → Nat → List (List ℝ)) (declared : List String) (N R : ℕ)
    (table : List (List (List ℝ)))
    (h : generateDraws (0 : ℝ) native user typeOf gen (sortNames declared) N R = .ok table)
    (betas row : List ℝ) (n : ℕ) (hn : n < N) (e : IExpr) (he : ∀ name ∈ drawsOf e, name ∈ declared) :
    monteCarlo declared table betas row n R e
      = ((List.range R).map fun r =>
          evalI betas row (ownDraw native user typeOf gen N R n r) e).sum / (R : ℝ) := by
  rw [mc_mean]
  congr 2
  apply List.map_congr_left
  intro r hr
  have hr' : r < R := List.mem_range.mp hr
  apply evalI_congr
  intro name hname
  obtain ⟨src, h1, h2⟩ :=
    own_series (0 : ℝ) native user typeOf gen declared N R table h name (he name hname) n r hn hr'
  unfold ownDraw
  rw [h1]
  exact h2

/-! ### the derivative operator -/

/-- **`Derive(e, parameter)` denotes the partial derivative**: the symbolic derivative computed on
the formula family is the derivative of the value as a function of that parameter. -/
theorem derive_is_diff (betas row : List ℝ) (xi : String → ℝ) (i : ℕ) (hi : i < betas.length)
    (e : IExpr) (t : ℝ) :
    HasDerivAt (fun t => evalI (betas.set i t) row xi e)
      (evalI (betas.set i t) row xi (diffBeta i e)) t :=
  diffBeta_correct betas row xi i hi e t

/-- the same w.r.t. a variable (data column) -/
theorem derive_var_is_diff (betas row : List ℝ) (xi : String → ℝ) (j : ℕ) (hj : j < row.length)
    (e : IExpr) (t : ℝ) :
    HasDerivAt (fun t => evalI betas (row.set j t) xi e)
      (evalI betas (row.set j t) xi (diffVar j e)) t :=
  diffVar_correct betas row xi j hj e t

/-- **`Derive(MonteCarlo(e), x)` denotes the partial derivative of the simulated quantity**
(elasticity of a mixture): the Monte-Carlo mean of the symbolic derivative is the derivative of the
Monte-Carlo mean as a function of data column `j` -/
theorem derive_mc_var_is_diff (declared : List String) (table : List (List (List ℝ)))
    (betas row : List ℝ) (n R j : ℕ) (hj : j < row.length) (e : IExpr) (t : ℝ) :
    HasDerivAt (fun t => monteCarlo declared table betas (row.set j t) n R e)
      (monteCarlo declared table betas (row.set j t) n R (diffVar j e)) t :=
  monteCarlo_diffVar declared table betas row n R j hj e t

/-- the same w.r.t. a parameter -/
theorem derive_mc_is_diff (declared : List String) (table : List (List (List ℝ)))
    (betas row : List ℝ) (n R i : ℕ) (hi : i < betas.length) (e : IExpr) (t : ℝ) :
    HasDerivAt (fun t => monteCarlo declared table (betas.set i t) row n R e)
      (monteCarlo declared table (betas.set i t) row n R (diffBeta i e)) t :=
  monteCarlo_diffBeta declared table betas row n R i hi e t

/-- **the index `Derive.get_signature` sends to the engine denotes the named literal and no other**:
in the global numbering (free parameters, fixed parameters, random variables, draw variables,
database columns) the entry at `literalIndex name` is `name`, and a literal with the same index has
the same name. -/
theorem derive_index_names_literal (free fixed rvs draws cols : List String) (name : String)
    (h : name ∈ allLiterals free fixed rvs draws cols) :
    (allLiterals free fixed rvs draws cols)[literalIndex (allLiterals free fixed rvs draws cols) name]?
        = some name ∧
      ∀ other, literalIndex (allLiterals free fixed rvs draws cols) other
        = literalIndex (allLiterals free fixed rvs draws cols) name → other = name := by
  refine ⟨?_, fun other ho => idxOf_inj_of_mem _ other name h ho⟩
  unfold literalIndex
  rw [List.getElem?_eq_getElem (List.idxOf_lt_length_iff.mpr h), List.getElem_idxOf]

/-- **a database column is numbered after all four other groups** — the group of the draw variables
included: its index is the number of distinct free parameters + fixed parameters + random variables
+ draw variables + its position among the columns. -/
theorem derive_index_variable (free fixed rvs draws cols : List String) (name : String)
    (h1 : name ∉ free) (h2 : name ∉ fixed) (h3 : name ∉ rvs) (h4 : name ∉ draws) :
    literalIndex (allLiterals free fixed rvs draws cols) name
      = (sortNames free).length + (sortNames fixed).length + (sortNames rvs).length
        + (sortNames draws).length + cols.idxOf name := by
  unfold literalIndex allLiterals
  have n1 := mt (mem_sortNames free name).1 h1
  have n2 := mt (mem_sortNames fixed name).1 h2
  have n3 := mt (mem_sortNames rvs name).1 h3
  have n4 := mt (mem_sortNames draws name).1 h4
  have n12 : name ∉ sortNames free ++ sortNames fixed := by simp [n1, n2]
  have n123 : name ∉ sortNames free ++ sortNames fixed ++ sortNames rvs := by simp [n1, n2, n3]
  have n1234 : name ∉ sortNames free ++ sortNames fixed ++ sortNames rvs ++ sortNames draws := by
    simp [n1, n2, n3, n4]
  rw [List.idxOf_append_of_notMem n1234]
  simp only [List.length_append]

/-- **`Derive(e, "x")` with the id manager's numbering is the partial derivative w.r.t. the data
column named `x`**: the names of the parameters (`bname`), of the columns (`vname`) and of the draw
variables of the formula being distinct literals of the numbering `all`. -/
theorem derive_named_var_is_diff (all : List String) (bname vname : ℕ → String) (j : ℕ)
    (hmem : vname j ∈ all) (hb : ∀ k, bname k ≠ vname j) (hv : ∀ k, vname k = vname j → k = j)
    (e : IExpr) (hd : ∀ name ∈ drawsOf e, name ≠ vname j)
    (betas row : List ℝ) (xi : String → ℝ) (hj : j < row.length) (t : ℝ) :
    deriveNamed all bname vname (vname j) e = diffVar j e ∧
    HasDerivAt (fun t => evalI betas (row.set j t) xi e)
      (evalI betas (row.set j t) xi (deriveNamed all bname vname (vname j) e)) t := by
  have heq : deriveNamed all bname vname (vname j) e = diffVar j e := by
    unfold deriveNamed
    exact diffLit_eq_diffVar _ (fun k => literalIndex all (vname k)) _ j e
      (fun k h => hb k (idxOf_inj_of_mem all _ _ hmem h))
      (fun k h => hv k (idxOf_inj_of_mem all _ _ hmem h))
      (fun name hn h => hd name hn (idxOf_inj_of_mem all _ _ hmem h))
  exact ⟨heq, heq ▸ diffVar_correct betas row xi j hj e t⟩

/-- the same for the parameter named `bname i` (free or fixed) -/
theorem derive_named_beta_is_diff (all : List String) (bname vname : ℕ → String) (i : ℕ)
    (hmem : bname i ∈ all) (hv : ∀ k, vname k ≠ bname i) (hb : ∀ k, bname k = bname i → k = i)
    (e : IExpr) (hd : ∀ name ∈ drawsOf e, name ≠ bname i)
    (betas row : List ℝ) (xi : String → ℝ) (hi : i < betas.length) (t : ℝ) :
    deriveNamed all bname vname (bname i) e = diffBeta i e ∧
    HasDerivAt (fun t => evalI (betas.set i t) row xi e)
      (evalI (betas.set i t) row xi (deriveNamed all bname vname (bname i) e)) t := by
  have heq : deriveNamed all bname vname (bname i) e = diffBeta i e := by
    unfold deriveNamed
    exact diffLit_eq_diffBeta (fun k => literalIndex all (bname k)) _ _ i e
      (fun k h => hv k (idxOf_inj_of_mem all _ _ hmem h))
      (fun k h => hb k (idxOf_inj_of_mem all _ _ hmem h))
      (fun name hn h => hd name hn (idxOf_inj_of_mem all _ _ hmem h))
  exact ⟨heq, heq ▸ diffBeta_correct betas row xi i hi e t⟩

/-- one free and one fixed parameter, one draw variable, three columns: column `Y` has index 4
(1 + 1 + 0 + 1 + position 1), and `Derive(b·xi·X + Y·Y, "Y")` differentiates w.r.t. `Y` only -/
example : literalIndex (allLiterals ["b2"] ["fx"] [] ["xi"] ["Z", "Y", "X"]) "Y" = 4 := by
  decide +kernel
example :
    deriveNamed (allLiterals ["b2"] ["fx"] [] ["xi"] ["Z", "Y", "X"])
      (fun i => if i = 0 then "b2" else "fx") (fun j => if j = 0 then "X" else if j = 1 then "Y" else "Z") "Y"
      (.add (.mul (.mul (.beta 0) (.draw "xi")) (.var 0)) (.mul (.var 1) (.var 1)))
    = diffVar 1 (.add (.mul (.mul (.beta 0) (.draw "xi")) (.var 0)) (.mul (.var 1) (.var 1))) :=
  (derive_named_var_is_diff (allLiterals ["b2"] ["fx"] [] ["xi"] ["Z", "Y", "X"])
    (fun i => if i = 0 then "b2" else "fx") (fun j => if j = 0 then "X" else if j = 1 then "Y" else "Z") 1
    (by simp [allLiterals]) (by intro k; by_cases h : k = 0 <;> simp [h])
    (by intro k; by_cases h : k = 0 <;> by_cases h' : k = 1 <;> simp [h, h']) _ (by simp [drawsOf])
    [0.5, 0.25] [1, 2] (fun _ => 100) (by simp) 2).1

/-! ### seeding -/

/-- **with a non-zero seed the generator state, hence every random series, is a function of the
seed alone**; seed 0 leaves the state as it was -/
theorem seeded_deterministic {σ : Type} (fresh : Nat → σ) (seed : Nat) (s₁ s₂ : σ) :
    (seed ≠ 0 → seedPolicy fresh seed s₁ = seedPolicy fresh seed s₂) ∧
    seedPolicy fresh 0 s₁ = s₁ := by
  unfold seedPolicy
  constructor
  · intro h; simp [h]
  · simp

/-! ### Gaussian closed forms: the oracle family of the numerical-integration operator -/

/-- the standard normal density `φ(x) = exp(−x²/2)/√(2π)` -/
noncomputable abbrev φ (x : ℝ) : ℝ := Real.exp (-x ^ 2 / 2) / Real.sqrt (2 * Real.pi)

open MeasureTheory in
/-- ∫ φ = 1 -/
theorem integral_phi : ∫ x : ℝ, φ x = 1 := Gaussian.integral_phi

open MeasureTheory in
/-- ∫ x φ = 0 -/
theorem integral_x_phi : ∫ x : ℝ, x * φ x = 0 := Gaussian.integral_x_phi

open MeasureTheory in
/-- ∫ x² φ = 1 -/
theorem integral_x2_phi : ∫ x : ℝ, x ^ 2 * φ x = 1 := Gaussian.integral_x2_phi

open MeasureTheory in
/-- ∫ φ(x) e^{a x} = e^{a²/2} for every real `a` -/
theorem integral_phi_exp (a : ℝ) : ∫ x : ℝ, φ x * Real.exp (a * x) = Real.exp (a ^ 2 / 2) :=
  Gaussian.integral_phi_exp a

open MeasureTheory in
/-- ∫ x φ(x) e^{a x} = a e^{a²/2} -/
theorem integral_x_phi_exp (a : ℝ) :
    ∫ x : ℝ, x * (φ x * Real.exp (a * x)) = a * Real.exp (a ^ 2 / 2) := Gaussian.integral_x_phi_exp a

open MeasureTheory in
/-- ∫ x² φ(x) e^{a x} = (1 + a²) e^{a²/2} -/
theorem integral_x2_phi_exp (a : ℝ) :
    ∫ x : ℝ, x ^ 2 * (φ x * Real.exp (a * x)) = (1 + a ^ 2) * Real.exp (a ^ 2 / 2) :=
  Gaussian.integral_x2_phi_exp a

open MeasureTheory in
/-- **the whole oracle family of the quadrature check** (polynomial of degree ≤ 2 × exponential ×
density, `a = β·x` in the correspondence):
∫ (c₀ + c₁x + c₂x²) φ(x) e^{ax} dx = e^{a²/2} (c₀ + c₁a + c₂(1 + a²)) -/
theorem integral_poly_phi_exp (a c0 c1 c2 : ℝ) :
    ∫ x : ℝ, (c0 + c1 * x + c2 * x ^ 2) * (φ x * Real.exp (a * x))
      = Real.exp (a ^ 2 / 2) * (c0 + c1 * a + c2 * (1 + a ^ 2)) :=
  Gaussian.integral_poly_phi_exp a c0 c1 c2

/-! ### round 3: generators with a state, the two call sites, sessions with BIOGEME objects -/

open McSession in
/-- **Draw-table indexing when the generators have a state** (numpy's global generator): entry `[n][r][k]` of
the table is entry `[n][r]` of what the generator serving the declared type of the `k`-th name returned *when
it was called for that name*, i.e. from the state left by the names served before it. -/
theorem table_index_stateful {σ α : Type} (dflt : α) (native user : List String) (typeOf : String → String)
    (gen : Gen σ α) (names : List String) (N R : Nat) (s s' : σ) (table : List (List (List α)))
    (h : generateDrawsS dflt native user typeOf gen names N R s = (.ok table, s'))
    (n r k : Nat) (hn : n < N) (hr : r < R) (hk : k < names.length) :
    ∃ src, dispatch native user (typeOf names[k]) = .ok src ∧
      entry dflt table n r k
        = (((gen src (stateBefore native user typeOf gen N R names s k) N R).1).getD n []).getD r dflt :=
  generateDrawsS_entry dflt native user typeOf gen names N R s s' table h n r k hn hr hk

open McSession in
/-- **variable A is fed series A, generators with a state**: with the list of names both call sites pass
(`IdManager.draws.names`, sorted) the column `drawId name` holds what the generator of the declared type of
`name` returned when it was called for `name`. -/
theorem own_series_stateful {σ α : Type} (dflt : α) (native user : List String) (gen : Gen σ α) (d : Decl)
    (N R : Nat) (s s' : σ) (table : List (List (List α)))
    (h : generateDrawsS dflt native user (declType d) gen (callNames d) N R s = (.ok table, s'))
    (name : String) (hname : name ∈ declNames d) (n r : Nat) (hn : n < N) (hr : r < R) :
    ∃ src, dispatch native user (declType d name) = .ok src ∧
      entry dflt table n r (drawId (declNames d) name)
        = (((gen src (stateBefore native user (declType d) gen N R (callNames d) s
            (drawId (declNames d) name)) N R).1).getD n []).getD r dflt := by
  have hk := drawId_lt (declNames d) name hname
  obtain ⟨src, h1, h2⟩ := generateDrawsS_entry dflt native user (declType d) gen (callNames d) N R s s'
    table h n r (drawId (declNames d) name) hn hr hk
  unfold callNames at h1
  rw [sortNames_drawId (declNames d) name hname] at h1
  exact ⟨src, h1, h2⟩

/-- **the order of the names handed to `generate_draws` is forced by the numbering of `IdManager.prepare`**:
a call site (`IdManager.prepare`, `BIOGEME._generate_draws`) that passes a list `ns` of the right length in
which every draw variable sits at its own `drawId` passes the sorted list — any other order of the same
names (e.g. the order of appearance in the formula) feeds some variable the series of another one. -/
theorem call_site_order_forced (declared ns : List String) (hl : ns.length = (sortNames declared).length)
    (h : ∀ name ∈ declared, ns[drawId declared name]? = some name) : ns = sortNames declared :=
  McSession.names_order_forced declared ns hl h

/-- … and the order of appearance is refuted on a witness: `zeta` used before `alpha` -/
theorem appearance_order_refuted :
    ∃ declared : List String, ∃ name ∈ declared, declared[drawId declared name]? ≠ some name := by
  refine ⟨["zeta", "alpha"], "zeta", by decide, ?_⟩
  unfold drawId
  rw [McSession.sortNames_zeta_alpha]
  decide

example : sortNames ["zeta", "alpha", "zeta", "b10", "b2"] = ["alpha", "b10", "b2", "zeta"] := by
  unfold sortNames
  rw [show (["zeta", "alpha", "zeta", "b10", "b2"] : List String).eraseDups = ["zeta", "alpha", "b10", "b2"]
    from by decide]
  simp [List.mergeSort, List.MergeSort.Internal.splitInTwo]
example : drawId ["zeta", "alpha"] "zeta" = 1 ∧ drawId ["zeta", "alpha"] "alpha" = 0 := by
  unfold drawId; rw [McSession.sortNames_zeta_alpha]; decide
/-- the hypotheses of `call_site_order_forced` hold for the sorted list and fail for the order of appearance -/
example : ∀ name ∈ ["zeta", "alpha"], (sortNames ["zeta", "alpha"])[drawId ["zeta", "alpha"] name]? = some name := by
  intro name hn
  unfold drawId
  rw [McSession.sortNames_zeta_alpha]
  simp only [List.mem_cons, List.not_mem_nil, or_false] at hn
  rcases hn with rfl | rfl <;> decide

open McSession in
/-- **both call sites of a BIOGEME constructor agree, and the engine receives the second round**: a
constructor that succeeds (`seed`, then `reset_id_manager`, `_generate_draws`, `setDraws`, `reset_id_manager`)
leaves in the engine the table `generate_draws` built for the sorted names from the generator state left by
the first round, the first round starting from the state `seedPolicy` gives. -/
theorem biogeme_engine_is_second_round {σ α : Type} (E : Env σ α) (seed : Nat) (d : Decl) (R : Nat)
    (w w' : World σ α) (o : Obj α) (hd : d.isEmpty = false)
    (h : initBiogeme E seed d R w = (w', some o, none)) :
    o.decl = d ∧ ∃ t1 s1 t2 s2,
      generateDrawsS E.dflt E.native E.user (declType d) E.gen (callNames d) E.N R
        (seedPolicy E.fresh seed w.rng) = (.ok t1, s1) ∧
      generateDrawsS E.dflt E.native E.user (declType d) E.gen (callNames d) E.N R s1 = (.ok t2, s2) ∧
      o.engine = some t2 :=
  initBiogeme_engine E seed d R w w' o hd h

open McSession in
/-- **an evaluation through a BIOGEME object (simulate, calculate_likelihood, …) substitutes for every draw
variable the series of its own type**: what the generator registered for the declared type of `name` returned
when it was called for `name` in the second round of the constructor. -/
theorem biogeme_reads_own_series {σ α : Type} (E : Env σ α) (seed : Nat) (d : Decl) (R : Nat)
    (w w' : World σ α) (o : Obj α) (hd : d.isEmpty = false)
    (h : initBiogeme E seed d R w = (w', some o, none))
    (name : String) (hname : name ∈ declNames d) (n r : Nat) (hn : n < E.N) (hr : r < R) :
    ∃ src s1, dispatch E.native E.user (declType d name) = .ok src ∧
      readBiogeme E.dflt o n r name
        = (((E.gen src (stateBefore E.native E.user (declType d) E.gen E.N R (callNames d) s1
            (drawId (declNames d) name)) E.N R).1).getD n []).getD r E.dflt := by
  obtain ⟨hdecl, t1, s1, t2, s2, _, g2, he⟩ := initBiogeme_engine E seed d R w w' o hd h
  obtain ⟨src, h1, h2⟩ := own_series_stateful E.dflt E.native E.user E.gen d E.N R s1 s2 t2 g2 name hname
    n r hn hr
  refine ⟨src, s1, h1, ?_⟩
  unfold readBiogeme
  rw [he, hdecl]
  exact h2

open McSession in
/-- **an expression evaluated with `prepare_ids=True` (get_value_c, get_value_and_derivatives,
create_function) reads the table generated in that very call**, every variable its own series -/
theorem expr_reads_own_series {σ α : Type} (E : Env σ α) (d : Decl) (R : Nat) (w : World σ α)
    (hd : d.isEmpty = false) (h : (step E w (.evalExpr d R)).2 = none)
    (name : String) (hname : name ∈ declNames d) (n r : Nat) (hn : n < E.N) (hr : r < R) :
    ∃ src, dispatch E.native E.user (declType d name) = .ok src ∧
      readExpr E.dflt (step E w (.evalExpr d R)).1 d n r name
        = (((E.gen src (stateBefore E.native E.user (declType d) E.gen E.N R (callNames d) w.rng
            (drawId (declNames d) name)) E.N R).1).getD n []).getD r E.dflt := by
  simp only [step, prepareDraws, hd, Bool.false_eq_true, if_false] at h ⊢
  rcases g : generateDrawsS E.dflt E.native E.user (declType d) E.gen (callNames d) E.N R w.rng with ⟨res, s⟩
  rw [g] at h
  cases res with
  | error e => simp at h
  | ok t =>
    obtain ⟨src, h1, h2⟩ := own_series_stateful E.dflt E.native E.user E.gen d E.N R w.rng s t g name hname
      n r hn hr
    exact ⟨src, h1, h2⟩

open McSession in
/-- **whatever happens afterwards** — other BIOGEME objects on the same database, expressions evaluated on
it (which overwrite `Database.theDraws`), numbers taken from the global generator, `number_of_draws`
assigned on the object — **an object keeps its formulas and the table its engine received** -/
theorem engine_frozen {σ α : Type} (E : Env σ α) (ops : List Op) (w : World σ α) (i : Nat) (o : Obj α)
    (h : w.objs[i]? = some o) :
    ∃ o', (run E w ops).objs[i]? = some o' ∧ o'.decl = o.decl ∧ o'.engine = o.engine :=
  run_keeps E ops w i o h

open McSession in
/-- **with a non-zero seed the results are reproducible**: the object a constructor builds (its engine table
included), the error it raises and the generator state it leaves are the same in any two worlds — two BIOGEME
objects in one process, whatever was evaluated or drawn in between. -/
theorem seeded_objects_identical {σ α : Type} (E : Env σ α) (seed : Nat) (hs : seed ≠ 0) (d : Decl) (R : Nat)
    (w₁ w₂ : World σ α) (hd : d.isEmpty = false) :
    (initBiogeme E seed d R w₁).2 = (initBiogeme E seed d R w₂).2 ∧
    (initBiogeme E seed d R w₁).1.rng = (initBiogeme E seed d R w₂).1.rng :=
  initBiogeme_sim E seed d R w₁ w₂ hd (by simp [seedPolicy, hs])

open McSession in
/-- **seed 0 does not touch the generator**: the constructor continues from the current state (two worlds with
the same generator state give the same object) -/
theorem seed_zero_continues {σ α : Type} (E : Env σ α) (d : Decl) (R : Nat) (w₁ w₂ : World σ α)
    (hd : d.isEmpty = false) (hr : w₁.rng = w₂.rng) :
    (initBiogeme E 0 d R w₁).2 = (initBiogeme E 0 d R w₂).2 ∧
    (initBiogeme E 0 d R w₁).1.rng = (initBiogeme E 0 d R w₂).1.rng :=
  initBiogeme_sim E 0 d R w₁ w₂ hd (by simp [seedPolicy, hr])

open McSession in
/-- **end to end through a BIOGEME object**: the Monte-Carlo operator evaluated by the object's engine returns
the arithmetic mean over the draws of its argument with every draw variable replaced by what `readBiogeme`
reads (by `biogeme_reads_own_series`: its own series of the constructor's second round). -/
theorem biogeme_mc_mean (o : Obj ℝ) (betas row : List ℝ) (n R : ℕ) (e : IExpr) :
    monteCarlo (declNames o.decl) (o.engine.getD []) betas row n R e
      = ((List.range R).map fun r => evalI betas row (readBiogeme 0 o n r) e).sum / (R : ℝ) :=
  mc_mean (declNames o.decl) (o.engine.getD []) betas row n R e

open McSession in
/-- the r-th draw of observation `n` of the series the registered generator returned for `name` when
`generate_draws` was run for the sorted names of `d` from generator state `s` (0 if the type is unknown) -/
noncomputable def ownDrawS {σ : Type} (E : Env σ ℝ) (d : Decl) (R : ℕ) (s : σ) (n r : ℕ) (name : String) : ℝ :=
  match dispatch E.native E.user (declType d name) with
  | .ok src => (((E.gen src (stateBefore E.native E.user (declType d) E.gen E.N R (callNames d) s
      (drawId (declNames d) name)) E.N R).1).getD n []).getD r 0
  | .error _ => 0

open McSession in
/-- **End to end through a BIOGEME object (first sentence of the property, generators with a state).**  For an
object built by a constructor that succeeded, the Monte-Carlo operator evaluated by the object's engine returns,
for observation `n`, the arithmetic mean over the `R` draws of its argument with every named draw variable
replaced by that observation's `r`-th draw of its own series — what the generator registered for its declared
type returned when it was called for that variable in the constructor's second generation round (`s1` = the
generator state left by the first round, itself started from the state the seed policy gives).  By
`engine_frozen` this holds after any later history on the same database. -/
theorem biogeme_mc_denotes_mean {σ : Type} (E : Env σ ℝ) (hE : E.dflt = 0) (seed : ℕ) (d : Decl) (R : ℕ)
    (w w' : World σ ℝ) (o : Obj ℝ) (hd : d.isEmpty = false)
    (h : initBiogeme E seed d R w = (w', some o, none))
    (betas row : List ℝ) (n : ℕ) (hn : n < E.N) (e : IExpr) (he : ∀ name ∈ drawsOf e, name ∈ declNames d) :
    ∃ t1 s1, generateDrawsS E.dflt E.native E.user (declType d) E.gen (callNames d) E.N R
        (seedPolicy E.fresh seed w.rng) = (.ok t1, s1) ∧
      monteCarlo (declNames o.decl) (o.engine.getD []) betas row n R e
        = ((List.range R).map fun r => evalI betas row (ownDrawS E d R s1 n r) e).sum / (R : ℝ) := by
  obtain ⟨hdecl, t1, s1, t2, s2, g1, g2, he'⟩ := initBiogeme_engine E seed d R w w' o hd h
  refine ⟨t1, s1, g1, ?_⟩
  rw [biogeme_mc_mean]
  congr 2
  apply List.map_congr_left
  intro r hr
  apply evalI_congr
  intro name hname
  obtain ⟨src, h1, h2⟩ := own_series_stateful E.dflt E.native E.user E.gen d E.N R s1 s2 t2 g2 name
    (he name hname) n r hn (List.mem_range.mp hr)
  unfold readBiogeme ownDrawS
  rw [he', hdecl, h1]
  rw [hE] at h2
  simpa using h2

open McSession in
/-- the hypotheses of `biogeme_mc_denotes_mean` / `biogeme_reads_own_series` are satisfiable over ℝ: a constructor
that succeeds (one draw variable, a generator returning a table of ones), default entry 0 -/
example :
    initBiogeme (σ := Unit) (α := ℝ)
        ⟨0, ["NORMAL"], [], fun _ s N R => (List.replicate N (List.replicate R 1), s), fun _ => (), fun s _ => s, 1⟩
        7 [("zeta", "NORMAL")] 1 ⟨(), none, []⟩
      = (⟨(), some [[[1]]], []⟩, some ⟨[("zeta", "NORMAL")], some [[[1]]], 1⟩, none) := by
  simp [initBiogeme, prepareDraws, generateDrawsS, collectS, callNames, declNames, declType, dispatch, shapeOk,
    seedPolicy, moveAxis, show sortNames ["zeta"] = ["zeta"] from by decide +kernel]

open McSession in
/-- a session on the instance run by the driver: a first object (seed 7), numbers taken from the generator, an
expression evaluated on the same database, `number_of_draws` assigned, a second object with the same seed —
both constructors succeed and the two engine tables are the same description -/
example :
    let E := logEnv ["NORMAL", "UNIFORM"] ["G0"] 2
    let d : Decl := [("zeta", "NORMAL")]
    let w := run E ⟨[], none, []⟩ [.newBiogeme 7 d 2, .consume 5, .evalExpr [("x", "UNIFORM")] 3,
      .setNumberOfDraws 0 9, .newBiogeme 7 d 2]
    (w.objs[0]?.map (·.engine)) = (w.objs[1]?.map (·.engine)) ∧ w.objs.length = 2 ∧
      (w.objs[0]?.map (·.numberOfDraws)) = some 9 ∧
      (w.objs[0]?.map (·.engine)) ≠ some none ∧ w.theDraws ≠ none := by
  decide +kernel

open McSession in
/-- **a function made by `create_function` reads its own series — PARTIAL**: under the guard that nothing
regenerates `Database.theDraws` between the creation and the call (numbers taken from the generator, evaluations
of BIOGEME objects, `number_of_draws` assigned, other calls of the function are allowed).  Missing: the
calculator hands `database.theDraws` *as it is at the time of the call* to the engine, so an expression evaluated
with `prepare_ids=True` or a BIOGEME object built on the same database in between changes what the function
reads (`function_reads_later_table`). -/
theorem function_reads_own_series_partial {σ α : Type} (E : Env σ α) (d : Decl) (R : Nat) (w : World σ α)
    (hd : d.isEmpty = false) (h : (step E w (.createFunction d R)).2 = none)
    (ops : List Op) (hq : ∀ op ∈ ops, op.quiet = true)
    (name : String) (hname : name ∈ declNames d) (n r : Nat) (hn : n < E.N) (hr : r < R) :
    ∃ src, dispatch E.native E.user (declType d name) = .ok src ∧
      readExpr E.dflt (run E (step E w (.createFunction d R)).1 ops) d n r name
        = (((E.gen src (stateBefore E.native E.user (declType d) E.gen E.N R (callNames d) w.rng
            (drawId (declNames d) name)) E.N R).1).getD n []).getD r E.dflt := by
  obtain ⟨src, h1, h2⟩ := expr_reads_own_series E d R w hd (by simpa [step] using h) name hname n r hn hr
  refine ⟨src, h1, ?_⟩
  unfold readExpr at h2 ⊢
  rw [run_quiet_theDraws E ops _ hq]
  simpa [step] using h2

open McSession in
/-- … and without the guard the statement is false of the code: after another expression was evaluated on the
same database, the function reads the table generated for that expression -/
theorem function_reads_later_table :
    let E := logEnv ["NORMAL", "UNIFORM"] [] 1
    let d : Decl := [("zeta", "NORMAL")]
    let w₁ := run E ⟨[], none, []⟩ [.createFunction d 1]
    let w₂ := run E w₁ [.evalExpr [("x", "UNIFORM")] 1]
    readExpr E.dflt w₁ d 0 0 "zeta" = ⟨[.call (.native "NORMAL") 1 1], 0, 0⟩ ∧
    readExpr E.dflt w₂ d 0 0 "zeta" = ⟨[.call (.native "NORMAL") 1 1, .call (.native "UNIFORM") 1 1], 0, 0⟩ := by
  decide +kernel

open McSession in
/-- **a refused generation changes nothing but the generator state**: an expression evaluated / a function created
/ a BIOGEME object constructed whose draw generation is refused (unknown type or wrong shape, at whatever
variable) raises, and leaves `Database.theDraws` and every object exactly as they were — no half-built table -/
theorem refused_generation_keeps_world {σ α : Type} (E : Env σ α) (w : World σ α) (op : Op)
    (h : refusedIn E w op = true) :
    (step E w op).1.theDraws = w.theDraws ∧ (step E w op).1.objs = w.objs ∧ (step E w op).2.isSome = true :=
  step_refused E w op h

open McSession in
/-- **a prepared formula survives refused formulas**: the guard of `function_reads_own_series_partial` widened to
histories of quiet operations *and refused generations* (`calmRun`) between the creation (`create_function`,
`Expression.prepare`) and the evaluation with `prepare_ids=False` -/
theorem function_survives_refusals_partial {σ α : Type} (E : Env σ α) (d : Decl) (R : Nat) (w : World σ α)
    (hd : d.isEmpty = false) (h : (step E w (.createFunction d R)).2 = none)
    (ops : List Op) (hc : calmRun E (step E w (.createFunction d R)).1 ops = true)
    (name : String) (hname : name ∈ declNames d) (n r : Nat) (hn : n < E.N) (hr : r < R) :
    ∃ src, dispatch E.native E.user (declType d name) = .ok src ∧
      readExpr E.dflt (run E (step E w (.createFunction d R)).1 ops) d n r name
        = (((E.gen src (stateBefore E.native E.user (declType d) E.gen E.N R (callNames d) w.rng
            (drawId (declNames d) name)) E.N R).1).getD n []).getD r E.dflt := by
  obtain ⟨src, h1, h2⟩ := expr_reads_own_series E d R w hd (by simpa [step] using h) name hname n r hn hr
  refine ⟨src, h1, ?_⟩
  unfold readExpr at h2 ⊢
  rw [run_calm_theDraws E ops _ hc]
  simpa [step] using h2

open McSession in
/-- a function is created, a formula with an unknown type and one whose generator returns the wrong shape are
refused (each after a good variable was already served), numbers are consumed: the history is calm and the
table is the one of the creation -/
example :
    let E := logEnv ["NORMAL", "UNIFORM"] ["G0", "GBAD"] 2
    let w₁ := (step E ⟨[], none, []⟩ (.createFunction [("zeta", "NORMAL")] 2)).1
    let ops := [Op.evalExpr [("a", "G0")] 2, .evalExpr [("b", "NOPE")] 2, .consume 3, .newBiogeme 5 [("c", "GBAD")] 2,
      .callFunction]
    calmRun E w₁ (ops.drop 1) = true ∧ calmRun E w₁ ops = false ∧
      (run E w₁ (ops.drop 1)).theDraws = w₁.theDraws ∧ w₁.theDraws ≠ none := by
  decide +kernel

/-- **a user generator registered under a look-alike of a native name is served by the user generator**: the
reserved-name test and the dispatch compare the declared type literally (case-sensitively), and a draw variable
carries its type as declared — `Uniform`, `normal_anti` are user types next to `UNIFORM`, `NORMAL_ANTI` -/
theorem lookalike_served_by_user (native user : List String) (ty : String) (h : ty ∉ native) (hu : ty ∈ user) :
    setUserGenerators native user = .ok user → dispatch native user ty = .ok (.user ty) :=
  fun _ => (generator_dispatch native user ty).2.1 h hu

example : setUserGenerators ["UNIFORM", "NORMAL_ANTI"] ["Uniform", "normal_anti", "g1", "G1"]
      = .ok ["Uniform", "normal_anti", "g1", "G1"] ∧
    dispatch ["UNIFORM", "NORMAL_ANTI"] ["Uniform", "normal_anti", "g1", "G1"] "Uniform" = .ok (.user "Uniform") ∧
    dispatch ["UNIFORM", "NORMAL_ANTI"] ["Uniform", "normal_anti", "g1", "G1"] "normal_anti" = .ok (.user "normal_anti") ∧
    dispatch ["UNIFORM", "NORMAL_ANTI"] ["Uniform", "normal_anti", "g1", "G1"] "g1" = .ok (.user "g1") ∧
    dispatch ["UNIFORM", "NORMAL_ANTI"] ["Uniform", "normal_anti", "g1", "G1"] "UNIFORM" = .ok (.native "UNIFORM") := by
  decide

/-! ### the five groups of the literal numbering -/

/-- a free parameter is numbered by its position among the sorted free parameters -/
theorem derive_index_free (free fixed rvs draws cols : List String) (name : String) (h : name ∈ free) :
    literalIndex (allLiterals free fixed rvs draws cols) name = (sortNames free).idxOf name := by
  unfold literalIndex allLiterals
  have m := (mem_sortNames free name).2 h
  rw [List.append_assoc, List.append_assoc, List.append_assoc, List.idxOf_append_of_mem m]

/-- a fixed parameter comes after all free ones -/
theorem derive_index_fixed (free fixed rvs draws cols : List String) (name : String) (h1 : name ∉ free)
    (h : name ∈ fixed) :
    literalIndex (allLiterals free fixed rvs draws cols) name
      = (sortNames free).length + (sortNames fixed).idxOf name := by
  unfold literalIndex allLiterals
  have n1 := mt (mem_sortNames free name).1 h1
  have m := (mem_sortNames fixed name).2 h
  rw [List.append_assoc, List.append_assoc, List.append_assoc, List.idxOf_append_of_notMem n1,
    List.idxOf_append_of_mem m]

/-- a random variable of numerical integration comes after all parameters -/
theorem derive_index_rv (free fixed rvs draws cols : List String) (name : String) (h1 : name ∉ free)
    (h2 : name ∉ fixed) (h : name ∈ rvs) :
    literalIndex (allLiterals free fixed rvs draws cols) name
      = (sortNames free).length + (sortNames fixed).length + (sortNames rvs).idxOf name := by
  unfold literalIndex allLiterals
  have n1 := mt (mem_sortNames free name).1 h1
  have n2 := mt (mem_sortNames fixed name).1 h2
  have m := (mem_sortNames rvs name).2 h
  rw [List.append_assoc, List.append_assoc, List.append_assoc, List.idxOf_append_of_notMem n1,
    List.idxOf_append_of_notMem n2, List.idxOf_append_of_mem m, Nat.add_assoc]

/-- **the two numbers of a draw variable's signature line**: its literal id is the number of parameters and
random variables + its `drawId` (the column of the draw table) -/
theorem derive_index_draw (free fixed rvs draws cols : List String) (name : String) (h1 : name ∉ free)
    (h2 : name ∉ fixed) (h3 : name ∉ rvs) (h : name ∈ draws) :
    literalIndex (allLiterals free fixed rvs draws cols) name
      = (sortNames free).length + (sortNames fixed).length + (sortNames rvs).length + drawId draws name := by
  unfold literalIndex allLiterals drawId
  have n1 := mt (mem_sortNames free name).1 h1
  have n2 := mt (mem_sortNames fixed name).1 h2
  have n3 := mt (mem_sortNames rvs name).1 h3
  have m := (mem_sortNames draws name).2 h
  rw [List.append_assoc, List.append_assoc, List.append_assoc, List.idxOf_append_of_notMem n1,
    List.idxOf_append_of_notMem n2, List.idxOf_append_of_notMem n3, List.idxOf_append_of_mem m]
  omega

/-- every group non-empty, appearance order ≠ alphabetical in two of them: `b10 b2 | fx | omega | alpha zeta | Z Y` -/
example : literalIndex (allLiterals ["b2", "b10"] ["fx"] ["omega"] ["zeta", "alpha"] ["Z", "Y"]) "zeta" = 5 ∧
    literalIndex (allLiterals ["b2", "b10"] ["fx"] ["omega"] ["zeta", "alpha"] ["Z", "Y"]) "b2" = 1 ∧
    literalIndex (allLiterals ["b2", "b10"] ["fx"] ["omega"] ["zeta", "alpha"] ["Z", "Y"]) "omega" = 3 ∧
    literalIndex (allLiterals ["b2", "b10"] ["fx"] ["omega"] ["zeta", "alpha"] ["Z", "Y"]) "Y" = 7 := by
  unfold literalIndex allLiterals
  rw [McSession.sortNames_b2_b10, McSession.sortNames_zeta_alpha, show sortNames ["fx"] = ["fx"] from by decide +kernel,
    show sortNames ["omega"] = ["omega"] from by decide +kernel]
  decide

end C10
