/-
C10 — simulated and numerical integrals equal the average / integral they denote.
Property theorems only (helper lemmas in Proofs/Integrals.lean, Proofs/IntegralsReal.lean,
Proofs/Gaussian.lean).

`generateDraws` models `Database.generate_draws` (dispatch native → user → error, shape test,
stack, moveaxis), `drawId` the numbering of `IdManager.prepare`, `monteCarlo` the engine's
Monte-Carlo loop with `bioDraws` reading `table[obs][r][drawId]` (engine modelled, not verified),
`diffBeta`/`diffVar` the derivative operator on the formula family of this property, `allLiterals` /
`literalIndex` the global numbering of `IdManager.prepare` and the index written by
`Derive.get_signature`, `diffLit` / `deriveNamed` the engine's derivative w.r.t. a literal id.  The Gaussian
closed forms are the oracle family against which the numerical-integration operator is compared
(its quadrature error for general integrands is not proved: PARTIAL).
-/
import Model.Integrals
import Proofs.Integrals
import Proofs.IntegralsReal
import Proofs.Gaussian

open Integrals

namespace C10

/-! ### the draw table -/

/-- **Draw-table indexing**: when `generate_draws` succeeds, entry `[n][r][k]` of the table it
returns is entry `[n][r]` of what the generator serving the declared type of the `k`-th name
returned — for every number of variables, observations and draws. -/
theorem table_index {α : Type} (dflt : α) (native user : List String) (typeOf : String → String)
    (gen : Source → Nat → Nat → List (List α)) (names : List String) (N R : Nat)
    (table : List (List (List α)))
    (h : generateDraws dflt native user typeOf gen names N R = .ok table)
    (n r k : Nat) (hn : n < N) (hr : r < R) (hk : k < names.length) :
    ∃ src, dispatch native user (typeOf names[k]) = .ok src ∧
      shapeOk (gen src N R) N R = true ∧
      entry dflt table n r k = ((gen src N R).getD n []).getD r dflt := by
  unfold generateDraws at h
  cases hc : collect native user typeOf gen N R names with
  | error e => rw [hc] at h; cases h
  | ok stack =>
    rw [hc] at h
    simp only at h
    cases h
    obtain ⟨hl, hall⟩ := collect_ok native user typeOf gen N R names stack hc
    obtain ⟨src, h1, h2, h3⟩ := hall k hk
    refine ⟨src, h1, h3, ?_⟩
    rw [entry_moveAxis dflt stack N R n r k hn hr (by omega), h2]

/-- **Variable A is fed series A**: with the names numbered as the id manager numbers them
(sorted, `drawId` = position), the column read by the draw variable `name` holds the series of
the generator registered for *its own* declared type. -/
theorem own_series {α : Type} (dflt : α) (native user : List String) (typeOf : String → String)
    (gen : Source → Nat → Nat → List (List α)) (declared : List String) (N R : Nat)
    (table : List (List (List α)))
    (h : generateDraws dflt native user typeOf gen (sortNames declared) N R = .ok table)
    (name : String) (hname : name ∈ declared) (n r : Nat) (hn : n < N) (hr : r < R) :
    ∃ src, dispatch native user (typeOf name) = .ok src ∧
      entry dflt table n r (drawId declared name) = ((gen src N R).getD n []).getD r dflt := by
  have hk := drawId_lt declared name hname
  obtain ⟨src, h1, _, h3⟩ :=
    table_index dflt native user typeOf gen (sortNames declared) N R table h n r
      (drawId declared name) hn hr hk
  rw [sortNames_drawId declared name hname] at h1
  exact ⟨src, h1, h3⟩

/-- two different draw variables never share a column -/
theorem distinct_columns (declared : List String) (a b : String) (ha : a ∈ declared)
    (hb : b ∈ declared) (hab : a ≠ b) : drawId declared a ≠ drawId declared b :=
  fun h => hab (drawId_inj declared a b ha hb h)

/-- two variables, two observations, two draws: `[k][n][r] ↦ [n][r][k]` -/
example : entry 0 (moveAxis 0 [[[1, 2], [3, 4]], [[5, 6], [7, 8]]] 2 2) 1 0 1 = 7 := by decide
example : moveAxis 0 [[[1, 2], [3, 4]], [[5, 6], [7, 8]]] 2 2 = [[[1, 5], [2, 6]], [[3, 7], [4, 8]]] := by
  decide

/-! ### generator dispatch -/

/-- **native name → catalogue entry, else user generator, else error** -/
theorem generator_dispatch (native user : List String) (ty : String) :
    (ty ∈ native → dispatch native user ty = .ok (.native ty)) ∧
    (ty ∉ native → ty ∈ user → dispatch native user ty = .ok (.user ty)) ∧
    (ty ∉ native → ty ∉ user → dispatch native user ty = .error .unknownType) :=
  ⟨dispatch_native native user ty, dispatch_user native user ty, dispatch_unknown native user ty⟩

/-- **reserved names are refused** by `set_random_number_generators`, and after a successful call
no user generator shadows a native one (so the dispatch is unambiguous) -/
theorem reserved_refused (native rng : List String) :
    ((∃ k ∈ native, k ∈ rng) → setUserGenerators native rng = .error .reservedKeyword) ∧
    (∀ user, setUserGenerators native rng = .ok user → user = rng ∧ ∀ k ∈ native, k ∉ user) := by
  unfold setUserGenerators
  by_cases hany : native.any (fun k => rng.contains k) = true
  · rw [if_pos hany]
    exact ⟨fun _ => rfl, fun user h => by cases h⟩
  · rw [if_neg hany]
    refine ⟨fun ⟨k, hk, hr⟩ =>
      absurd (List.any_eq_true.mpr ⟨k, hk, by simpa using hr⟩) hany, ?_⟩
    intro user h
    cases h
    exact ⟨rfl, fun k hk hr => hany (List.any_eq_true.mpr ⟨k, hk, by simpa using hr⟩)⟩

/-- **a generator returning the wrong shape is refused** (first offending variable) -/
theorem wrong_shape_refused {α : Type} (dflt : α) (native user : List String)
    (typeOf : String → String) (gen : Source → Nat → Nat → List (List α)) (names : List String)
    (N R k : Nat) (hk : k < names.length)
    (hprev : ∀ j (hj : j < k), ∃ src, dispatch native user (typeOf (names[j]'(by omega))) = .ok src ∧
      shapeOk (gen src N R) N R = true)
    (src : Source) (hd : dispatch native user (typeOf names[k]) = .ok src)
    (hbad : shapeOk (gen src N R) N R = false) :
    generateDraws dflt native user typeOf gen names N R = .error .wrongShape := by
  unfold generateDraws
  rw [collect_error_shape native user typeOf gen N R names k hk hprev src hd hbad]

/-- **an unknown draw type is refused** -/
theorem unknown_type_refused {α : Type} (dflt : α) (native user : List String)
    (typeOf : String → String) (gen : Source → Nat → Nat → List (List α)) (names : List String)
    (N R k : Nat) (hk : k < names.length)
    (hprev : ∀ j (hj : j < k), ∃ src, dispatch native user (typeOf (names[j]'(by omega))) = .ok src ∧
      shapeOk (gen src N R) N R = true)
    (h1 : typeOf names[k] ∉ native) (h2 : typeOf names[k] ∉ user) :
    generateDraws dflt native user typeOf gen names N R = .error .unknownType := by
  unfold generateDraws
  rw [collect_error_unknown native user typeOf gen N R names k hk hprev
    (dispatch_unknown native user _ h1 h2)]

example : dispatch ["NORMAL", "UNIFORM"] ["MINE"] "MINE" = .ok (.user "MINE") := by decide
example : setUserGenerators ["NORMAL", "UNIFORM"] ["MINE", "NORMAL"] = .error .reservedKeyword := by decide
example : shapeOk [[1, 2, 3], [4, 5, 6]] 2 3 = true ∧ shapeOk [[1, 2, 3], [4, 5, 6]] 3 2 = false := by decide

/-! ### the Monte-Carlo operator -/

/-- **The Monte-Carlo operator returns the arithmetic mean over the `R` draws of its argument**,
the draw variable `name` being replaced by entry `[n][r][drawId name]` of the table. -/
theorem mc_mean (declared : List String) (table : List (List (List ℝ))) (betas row : List ℝ)
    (n R : ℕ) (e : IExpr) :
    monteCarlo declared table betas row n R e
      = ((List.range R).map fun r =>
          evalI betas row (fun name => entry 0 table n r (drawId declared name)) e).sum / (R : ℝ) :=
  monteCarlo_real declared table betas row n R e

/-- … **every named draw variable replaced by that observation's r-th draw of its own series**:
on the table produced by `generate_draws`, the value substituted for `name` at draw `r` is
`series(type of name)[n][r]`. -/
theorem mc_own_series (native user : List String) (typeOf : String → String)
    (gen : Source → Nat → Nat → List (List ℝ)) (declared : List String) (N R : ℕ)
    (table : List (List (List ℝ)))
    (h : generateDraws (0 : ℝ) native user typeOf gen (sortNames declared) N R = .ok table)
    (n : ℕ) (hn : n < N) (name : String) (hname : name ∈ declared) (r : ℕ) (hr : r < R) :
    ∃ src, dispatch native user (typeOf name) = .ok src ∧
      entry (0 : ℝ) table n r (drawId declared name) = ((gen src N R).getD n []).getD r 0 :=
  own_series (0 : ℝ) native user typeOf gen declared N R table h name hname n r hn hr

/-- the r-th draw of observation `n` of the series the registered generator produced for the declared
type of `name` (0 if the type is unknown — excluded by the hypotheses below) -/
noncomputable def ownDraw (native user : List String) (typeOf : String → String)
    (gen : Source → Nat → Nat → List (List ℝ)) (N R n r : ℕ) (name : String) : ℝ :=
  match dispatch native user (typeOf name) with
  | .ok src => ((gen src N R).getD n []).getD r 0
  | .error _ => 0

/-- **End to end (first sentence of the property).**  On the table produced by `generate_draws` for
the draw variables of the formulas, the Monte-Carlo operator returns for observation `n` the
arithmetic mean over the `R` draws of its argument evaluated with every named draw variable replaced
by that observation's `r`-th draw of that variable's own series — exactly what the generator
registered for the variable's declared type produced. -/
theorem mc_denotes_mean (native user : List String) (typeOf : String → String)
    (gen : Source → Nat → Nat → List (List ℝ)) (declared : List String) (N R : ℕ)
    (table : List (List (List ℝ)))
    (h : generateDraws (0 : ℝ) native user typeOf gen (sortNames declared) N R = .ok table)
    (betas row : List ℝ) (n : ℕ) (hn : n < N) (e : IExpr) (he : ∀ name ∈ drawsOf e, name ∈ declared) :
    monteCarlo declared table betas row n R e
      = ((List.range R).map fun r =>
          evalI betas row (ownDraw native user typeOf gen N R n r) e).sum / (R : ℝ) := by
  rw [mc_mean]
  congr 2
  apply List.map_congr_left
  intro r hr
  have hr' : r < R := List.mem_range.mp hr
  apply evalI_congr
  intro name hname
  obtain ⟨src, h1, h2⟩ :=
    own_series (0 : ℝ) native user typeOf gen declared N R table h name (he name hname) n r hn hr'
  unfold ownDraw
  rw [h1]
  exact h2

/-! ### the derivative operator -/

/-- **`Derive(e, parameter)` denotes the partial derivative**: the symbolic derivative computed on
the formula family is the derivative of the value as a function of that parameter. -/
theorem derive_is_diff (betas row : List ℝ) (xi : String → ℝ) (i : ℕ) (hi : i < betas.length)
    (e : IExpr) (t : ℝ) :
    HasDerivAt (fun t => evalI (betas.set i t) row xi e)
      (evalI (betas.set i t) row xi (diffBeta i e)) t :=
  diffBeta_correct betas row xi i hi e t

/-- the same w.r.t. a variable (data column) -/
theorem derive_var_is_diff (betas row : List ℝ) (xi : String → ℝ) (j : ℕ) (hj : j < row.length)
    (e : IExpr) (t : ℝ) :
    HasDerivAt (fun t => evalI betas (row.set j t) xi e)
      (evalI betas (row.set j t) xi (diffVar j e)) t :=
  diffVar_correct betas row xi j hj e t

/-- **`Derive(MonteCarlo(e), x)` denotes the partial derivative of the simulated quantity**
(elasticity of a mixture): the Monte-Carlo mean of the symbolic derivative is the derivative of the
Monte-Carlo mean as a function of data column `j` -/
theorem derive_mc_var_is_diff (declared : List String) (table : List (List (List ℝ)))
    (betas row : List ℝ) (n R j : ℕ) (hj : j < row.length) (e : IExpr) (t : ℝ) :
    HasDerivAt (fun t => monteCarlo declared table betas (row.set j t) n R e)
      (monteCarlo declared table betas (row.set j t) n R (diffVar j e)) t :=
  monteCarlo_diffVar declared table betas row n R j hj e t

/-- the same w.r.t. a parameter -/
theorem derive_mc_is_diff (declared : List String) (table : List (List (List ℝ)))
    (betas row : List ℝ) (n R i : ℕ) (hi : i < betas.length) (e : IExpr) (t : ℝ) :
    HasDerivAt (fun t => monteCarlo declared table (betas.set i t) row n R e)
      (monteCarlo declared table (betas.set i t) row n R (diffBeta i e)) t :=
  monteCarlo_diffBeta declared table betas row n R i hi e t

/-- **the index `Derive.get_signature` sends to the engine denotes the named literal and no other**:
in the global numbering (free parameters, fixed parameters, random variables, draw variables,
database columns) the entry at `literalIndex name` is `name`, and a literal with the same index has
the same name. -/
theorem derive_index_names_literal (free fixed rvs draws cols : List String) (name : String)
    (h : name ∈ allLiterals free fixed rvs draws cols) :
    (allLiterals free fixed rvs draws cols)[literalIndex (allLiterals free fixed rvs draws cols) name]?
        = some name ∧
      ∀ other, literalIndex (allLiterals free fixed rvs draws cols) other
        = literalIndex (allLiterals free fixed rvs draws cols) name → other = name := by
  refine ⟨?_, fun other ho => idxOf_inj_of_mem _ other name h ho⟩
  unfold literalIndex
  rw [List.getElem?_eq_getElem (List.idxOf_lt_length_iff.mpr h), List.getElem_idxOf]

/-- **a database column is numbered after all four other groups** — the group of the draw variables
included: its index is the number of distinct free parameters + fixed parameters + random variables
+ draw variables + its position among the columns. -/
theorem derive_index_variable (free fixed rvs draws cols : List String) (name : String)
    (h1 : name ∉ free) (h2 : name ∉ fixed) (h3 : name ∉ rvs) (h4 : name ∉ draws) :
    literalIndex (allLiterals free fixed rvs draws cols) name
      = (sortNames free).length + (sortNames fixed).length + (sortNames rvs).length
        + (sortNames draws).length + cols.idxOf name := by
  unfold literalIndex allLiterals
  have n1 := mt (mem_sortNames free name).1 h1
  have n2 := mt (mem_sortNames fixed name).1 h2
  have n3 := mt (mem_sortNames rvs name).1 h3
  have n4 := mt (mem_sortNames draws name).1 h4
  have n12 : name ∉ sortNames free ++ sortNames fixed := by simp [n1, n2]
  have n123 : name ∉ sortNames free ++ sortNames fixed ++ sortNames rvs := by simp [n1, n2, n3]
  have n1234 : name ∉ sortNames free ++ sortNames fixed ++ sortNames rvs ++ sortNames draws := by
    simp [n1, n2, n3, n4]
  rw [List.idxOf_append_of_notMem n1234]
  simp only [List.length_append]

/-- **`Derive(e, "x")` with the id manager's numbering is the partial derivative w.r.t. the data
column named `x`**: the names of the parameters (`bname`), of the columns (`vname`) and of the draw
variables of the formula being distinct literals of the numbering `all`. -/
theorem derive_named_var_is_diff (all : List String) (bname vname : ℕ → String) (j : ℕ)
    (hmem : vname j ∈ all) (hb : ∀ k, bname k ≠ vname j) (hv : ∀ k, vname k = vname j → k = j)
    (e : IExpr) (hd : ∀ name ∈ drawsOf e, name ≠ vname j)
    (betas row : List ℝ) (xi : String → ℝ) (hj : j < row.length) (t : ℝ) :
    deriveNamed all bname vname (vname j) e = diffVar j e ∧
    HasDerivAt (fun t => evalI betas (row.set j t) xi e)
      (evalI betas (row.set j t) xi (deriveNamed all bname vname (vname j) e)) t := by
  have heq : deriveNamed all bname vname (vname j) e = diffVar j e := by
    unfold deriveNamed
    exact diffLit_eq_diffVar _ (fun k => literalIndex all (vname k)) _ j e
      (fun k h => hb k (idxOf_inj_of_mem all _ _ hmem h))
      (fun k h => hv k (idxOf_inj_of_mem all _ _ hmem h))
      (fun name hn h => hd name hn (idxOf_inj_of_mem all _ _ hmem h))
  exact ⟨heq, heq ▸ diffVar_correct betas row xi j hj e t⟩

/-- the same for the parameter named `bname i` (free or fixed) -/
theorem derive_named_beta_is_diff (all : List String) (bname vname : ℕ → String) (i : ℕ)
    (hmem : bname i ∈ all) (hv : ∀ k, vname k ≠ bname i) (hb : ∀ k, bname k = bname i → k = i)
    (e : IExpr) (hd : ∀ name ∈ drawsOf e, name ≠ bname i)
    (betas row : List ℝ) (xi : String → ℝ) (hi : i < betas.length) (t : ℝ) :
    deriveNamed all bname vname (bname i) e = diffBeta i e ∧
    HasDerivAt (fun t => evalI (betas.set i t) row xi e)
      (evalI (betas.set i t) row xi (deriveNamed all bname vname (bname i) e)) t := by
  have heq : deriveNamed all bname vname (bname i) e = diffBeta i e := by
    unfold deriveNamed
    exact diffLit_eq_diffBeta (fun k => literalIndex all (bname k)) _ _ i e
      (fun k h => hv k (idxOf_inj_of_mem all _ _ hmem h))
      (fun k h => hb k (idxOf_inj_of_mem all _ _ hmem h))
      (fun name hn h => hd name hn (idxOf_inj_of_mem all _ _ hmem h))
  exact ⟨heq, heq ▸ diffBeta_correct betas row xi i hi e t⟩

/-- one free and one fixed parameter, one draw variable, three columns: column `Y` has index 4
(1 + 1 + 0 + 1 + position 1), and `Derive(b·xi·X + Y·Y, "Y")` differentiates w.r.t. `Y` only -/
example : literalIndex (allLiterals ["b2"] ["fx"] [] ["xi"] ["Z", "Y", "X"]) "Y" = 4 := by
  decide +kernel
example :
    deriveNamed (allLiterals ["b2"] ["fx"] [] ["xi"] ["Z", "Y", "X"])
      (fun i => if i = 0 then "b2" else "fx") (fun j => if j = 0 then "X" else if j = 1 then "Y" else "Z") "Y"
      (.add (.mul (.mul (.beta 0) (.draw "xi")) (.var 0)) (.mul (.var 1) (.var 1)))
    = diffVar 1 (.add (.mul (.mul (.beta 0) (.draw "xi")) (.var 0)) (.mul (.var 1) (.var 1))) :=
  (derive_named_var_is_diff (allLiterals ["b2"] ["fx"] [] ["xi"] ["Z", "Y", "X"])
    (fun i => if i = 0 then "b2" else "fx") (fun j => if j = 0 then "X" else if j = 1 then "Y" else "Z") 1
    (by simp [allLiterals]) (by intro k; by_cases h : k = 0 <;> simp [h])
    (by intro k; by_cases h : k = 0 <;> by_cases h' : k = 1 <;> simp [h, h']) _ (by simp [drawsOf])
    [0.5, 0.25] [1, 2] (fun _ => 100) (by simp) 2).1

/-! ### seeding -/

/-- **with a non-zero seed the generator state, hence every random series, is a function of the
seed alone**; seed 0 leaves the state as it was -/
theorem seeded_deterministic {σ : Type} (fresh : Nat → σ) (seed : Nat) (s₁ s₂ : σ) :
    (seed ≠ 0 → seedPolicy fresh seed s₁ = seedPolicy fresh seed s₂) ∧
    seedPolicy fresh 0 s₁ = s₁ := by
  unfold seedPolicy
  constructor
  · intro h; simp [h]
  · simp

/-! ### Gaussian closed forms: the oracle family of the numerical-integration operator -/

/-- the standard normal density `φ(x) = exp(−x²/2)/√(2π)` -/
noncomputable abbrev φ (x : ℝ) : ℝ := Real.exp (-x ^ 2 / 2) / Real.sqrt (2 * Real.pi)

open MeasureTheory in
/-- ∫ φ = 1 -/
theorem integral_phi : ∫ x : ℝ, φ x = 1 := Gaussian.integral_phi

open MeasureTheory in
/-- ∫ x φ = 0 -/
theorem integral_x_phi : ∫ x : ℝ, x * φ x = 0 := Gaussian.integral_x_phi

open MeasureTheory in
/-- ∫ x² φ = 1 -/
theorem integral_x2_phi : ∫ x : ℝ, x ^ 2 * φ x = 1 := Gaussian.integral_x2_phi

open MeasureTheory in
/-- ∫ φ(x) e^{a x} = e^{a²/2} for every real `a` -/
theorem integral_phi_exp (a : ℝ) : ∫ x : ℝ, φ x * Real.exp (a * x) = Real.exp (a ^ 2 / 2) :=
  Gaussian.integral_phi_exp a

open MeasureTheory in
/-- ∫ x φ(x) e^{a x} = a e^{a²/2} -/
theorem integral_x_phi_exp (a : ℝ) :
    ∫ x : ℝ, x * (φ x * Real.exp (a * x)) = a * Real.exp (a ^ 2 / 2) := Gaussian.integral_x_phi_exp a

open MeasureTheory in
/-- ∫ x² φ(x) e^{a x} = (1 + a²) e^{a²/2} -/
theorem integral_x2_phi_exp (a : ℝ) :
    ∫ x : ℝ, x ^ 2 * (φ x * Real.exp (a * x)) = (1 + a ^ 2) * Real.exp (a ^ 2 / 2) :=
  Gaussian.integral_x2_phi_exp a

open MeasureTheory in
/-- **the whole oracle family of the quadrature check** (polynomial of degree ≤ 2 × exponential ×
density, `a = β·x` in the correspondence):
∫ (c₀ + c₁x + c₂x²) φ(x) e^{ax} dx = e^{a²/2} (c₀ + c₁a + c₂(1 + a²)) -/
theorem integral_poly_phi_exp (a c0 c1 c2 : ℝ) :
    ∫ x : ℝ, (c0 + c1 * x + c2 * x ^ 2) * (φ x * Real.exp (a * x))
      = Real.exp (a ^ 2 / 2) * (c0 + c1 * a + c2 * (1 + a ^ 2)) :=
  Gaussian.integral_poly_phi_exp a c0 c1 c2

end C10
