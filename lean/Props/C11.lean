/-
C11 — every named draw type delivers the distribution and structure it advertises.
Property theorems only (lemmas in Proofs/Draws.lean, Proofs/DrawsWichura.lean).  Numeric
statements are about the `ℝ` instance of the definitions of Model/Draws.lean — the same
definitions the driver runs on `Float`; the catalogue `Generated.drawCatalogue` is rewritten
from the source of `native_draws.py` on every run.
Round 3: histories within one process (Model/DrawsSession.lean, lemmas in Proofs/DrawsSession.lean) —
lists of generator calls (catalogue entries, `draws.py` generators with every option) mixed with
in-place operations of the caller on arrays it received; the registry of user-defined generators.
-/
import Model.Draws
import Proofs.Draws
import Proofs.DrawsWichura
import Proofs.DrawsSession
import Generated.DrawCatalogue

open Draws

namespace C11

/-! ### Halton -/

/-- **The array-doubling loops of `get_halton_draws` produce the radical-inverse sequence**:
for every base `b ≥ 2`, every length and every skip, element `k` of the result is the radical
inverse of `k + skip + 1` in base `b`. -/
theorem halton_is_radical_inverse (b skip len : ℕ) (hb : 2 ≤ b) :
    (haltonDraws b skip len false : List ℝ)
      = (List.range len).map (fun k => (radInv b (k + skip + 1) : ℝ)) :=
  haltonDraws_spec b skip len hb

/-- the symmetric variant is the map `2u − 1` of the same sequence -/
theorem halton_symmetric (b skip len : ℕ) (hb : 2 ≤ b) :
    (haltonDraws b skip len true : List ℝ)
      = (List.range len).map (fun k => 2 * (radInv b (k + skip + 1) : ℝ) - 1) :=
  haltonDraws_spec_sym b skip len hb

/-- the radical inverse is the mirrored digit expansion: one more digit `i` above `t` digits
adds `i / b^(t+1)` -/
theorem radical_inverse_digits (b : ℕ) (hb : 2 ≤ b) (t k i : ℕ) (hk : k < b ^ t) (hi : i < b) :
    (radInv b (k + i * b ^ t) : ℝ) = radInv b k + (i : ℝ) / (b : ℝ) ^ (t + 1) :=
  radInv_add_mul b hb t k i hk hi

/-- support of the Halton draws: `[0, 1)` -/
theorem halton_support (b : ℕ) (hb : 2 ≤ b) (k : ℕ) : (0 : ℝ) ≤ radInv b k ∧ (radInv b k : ℝ) < 1 :=
  ⟨radInv_nonneg b hb k, radInv_lt_one b hb k⟩

/-- the exact fraction used by the generated obligations is the radical inverse -/
theorem radical_inverse_fraction (b : ℕ) (hb : 2 ≤ b) (fuel k : ℕ) (hk : k < fuel) :
    (radInv b k : ℝ) = ((radInvQ b fuel k).1 : ℝ) / ((radInvQ b fuel k).2 : ℝ) :=
  (radInvQ_spec b hb fuel k hk).2

/-! ### Latin hypercube -/

open Classical in
/-- **Exactly one point per stratum**, for any uniform numbers in `[0, 1)` and any permutation
(`N` = number of points, strata `[s/N, (s+1)/N)`). -/
theorem lhs_one_per_stratum (us : List ℝ) (perm : List ℕ) (hu : ∀ u ∈ us, 0 ≤ u ∧ u < 1)
    (hp : perm.Perm (List.range us.length)) (s : ℕ) (hs : s < us.length) :
    (lhsDraws us perm false).countP (fun x => decide (inStratum us.length s x)) = 1 :=
  lhsDraws_count us perm hu hp s hs

open Classical in
/-- the symmetric variant: one point in each stratum `[2s/N − 1, 2(s+1)/N − 1)` of `[−1, 1)` -/
theorem lhs_one_per_stratum_symmetric (us : List ℝ) (perm : List ℕ) (hu : ∀ u ∈ us, 0 ≤ u ∧ u < 1)
    (hp : perm.Perm (List.range us.length)) (s : ℕ) (hs : s < us.length) :
    (lhsDraws us perm true).countP (fun x => decide (inStratumSym us.length s x)) = 1 :=
  lhsDraws_count_sym us perm hu hp s hs

/-! ### arrays of the catalogued types (`genRows g n r` with `r` generated draws per row) -/

/-- **Shape**: `n` rows of `r` columns, `2r` for antithetic types — with `r = R/2` and even
`R` that is the `n × R` array `Database.generate_draws` demands. -/
theorem shape (g : Gen) (n r : ℕ) (us : List ℝ) (perm : List ℕ) (h : InputsOK g n r us perm) :
    (genRows g n r us perm).length = n ∧
    ∀ row ∈ genRows g n r us perm, row.length = if g.antithetic then 2 * r else r :=
  genRows_shape g n r us perm h

/-- for an even number of draws every catalogued type is accepted by `generate_draws` -/
theorem shape_accepted_even (g : Gen) (n R : ℕ) (us : List ℝ) (perm : List ℕ) (hR : R % 2 = 0)
    (h : InputsOK g n (drawsPerRow g R) us perm) :
    shapeAccepted n R (genRows g n (drawsPerRow g R) us perm) = true := by
  obtain ⟨h1, h2⟩ := genRows_shape g n (drawsPerRow g R) us perm h
  unfold shapeAccepted
  simp only [Bool.and_eq_true, beq_iff_eq, List.all_eq_true]
  refine ⟨h1, fun row hrow => ?_⟩
  rw [h2 row hrow]
  unfold drawsPerRow
  by_cases ha : g.antithetic = true
  · simp only [ha, if_true]; omega
  · simp only [ha]; simp

/-- an odd number of draws with an antithetic type gives `R − 1` columns: refused -/
theorem shape_refused_odd (g : Gen) (n R : ℕ) (us : List ℝ) (perm : List ℕ) (hn : 0 < n)
    (ha : g.antithetic = true) (hR : R % 2 = 1) (h : InputsOK g n (drawsPerRow g R) us perm) :
    shapeAccepted n R (genRows g n (drawsPerRow g R) us perm) = false := by
  obtain ⟨h1, h2⟩ := genRows_shape g n (drawsPerRow g R) us perm h
  rw [Bool.eq_false_iff]
  intro hacc
  unfold shapeAccepted at hacc
  simp only [Bool.and_eq_true, beq_iff_eq, List.all_eq_true] at hacc
  obtain ⟨row, hrow⟩ := List.exists_mem_of_length_pos (by rw [h1]; exact hn)
  have e1 := h2 row hrow
  have e2 := hacc.2 row hrow
  simp only [ha, if_true, drawsPerRow] at e1
  omega

/-- **Antithetic**: every row is a first half followed by its mirror image (`1 − u` for unit
draws, `−x` for symmetric and normal draws). -/
theorem antithetic_mirror (g : Gen) (n r : ℕ) (us : List ℝ) (perm : List ℕ) (ha : g.antithetic = true)
    (h : InputsOK g n r us perm) :
    ∀ row ∈ genRows g n r us perm, ∃ half : List ℝ, half.length = r ∧
      row = half ++ half.map (mirror g.mirror) :=
  genRows_antithetic g n r us perm ha h

/-- **Symmetric = 2u − 1** of the unit type on the same random numbers (all non-normal families,
antithetic or not: `2(1 − u) − 1 = −(2u − 1)`). -/
theorem symmetric_map (g : Gen) (n r : ℕ) (us : List ℝ) (perm : List ℕ) (hn : g.normal = false)
    (hb : ∀ b s, g.family = .halton b s → 2 ≤ b)
    (hp : g.family = .mlhs → ∀ i ∈ perm, i < us.length) :
    genRows { g with symmetric := true } n r us perm
      = (genRows { g with symmetric := false } n r us perm).map (List.map (fun u => 2 * u - 1)) := by
  rw [genRows_symmetric g n r us perm hn hb hp]
  congr 2
  funext u
  exact symMap_real u

/-! ### `Database.generate_draws`: shape enforcement for ANY generator -/

/-- **Only the shape `(n, R)` is accepted** — whatever the number of elements. -/
theorem shape_enforced_iff (n R : ℕ) (dims : List ℕ) :
    dimsAccepted n R dims = true ↔ dims = [n, R] :=
  dimsAccepted_iff n R dims

/-- **The right number of elements in the wrong layout is refused**: an array of any shape
other than `(n, R)` with `n·R` elements — in particular the transposed one (`n ≠ R`), the
one-dimensional one, and the ones with an extra axis of length 1. -/
theorem same_count_wrong_layout_refused (n R : ℕ) :
    (∀ dims : List ℕ, dimsCount dims = n * R → dims ≠ [n, R] → dimsAccepted n R dims = false) ∧
    (n ≠ R → dimsCount [R, n] = n * R ∧ dimsAccepted n R [R, n] = false) ∧
    (dimsCount [n * R] = n * R ∧ dimsAccepted n R [n * R] = false) ∧
    (dimsCount [n, R, 1] = n * R ∧ dimsAccepted n R [n, R, 1] = false) ∧
    (dimsCount [1, n, R] = n * R ∧ dimsAccepted n R [1, n, R] = false) := by
  refine ⟨fun dims _ h => (dimsAccepted_false_iff n R dims).mpr h, ?_, ?_, ?_, ?_⟩
  · intro h
    refine ⟨by simp [dimsCount, Nat.mul_comm], (dimsAccepted_false_iff _ _ _).mpr ?_⟩
    intro e
    simp only [List.cons.injEq, and_true] at e
    exact h e.1.symm
  · exact ⟨by simp [dimsCount], (dimsAccepted_false_iff _ _ _).mpr (by simp)⟩
  · exact ⟨by simp [dimsCount], (dimsAccepted_false_iff _ _ _).mpr (by simp)⟩
  · exact ⟨by simp [dimsCount], (dimsAccepted_false_iff _ _ _).mpr (by simp)⟩

/-- **`generate_draws` refuses as soon as one generator delivers another shape**: the error
names the first variable (in the order of `names`) whose array is not `(n, R)`; the contents of
the arrays play no role. -/
theorem generate_draws_refuses_wrong_shape {α : Type} [NumOps α] (n R : ℕ) (vars : List (Delivered α))
    (h : ∃ d ∈ vars, d.dims ≠ [n, R]) :
    ∃ v, generateDraws n R vars = .error v ∧
      (∃ d, vars[v]? = some d ∧ d.dims ≠ [n, R]) ∧
      ∀ k, k < v → ∀ d', vars[k]? = some d' → d'.dims = [n, R] := by
  cases hf : firstRefused n R 0 (vars.map (·.dims)) with
  | none =>
    exfalso
    obtain ⟨d, hd, hne⟩ := h
    exact hne ((firstRefused_none_iff n R 0 _).mp hf d.dims (List.mem_map_of_mem hd))
  | some v =>
    obtain ⟨_, ⟨d0, h2, h3⟩, h4⟩ := firstRefused_some n R 0 _ v hf
    refine ⟨v, by simp [generateDraws, hf], ?_, ?_⟩
    · simp only [Nat.sub_zero, List.getElem?_map, Option.map_eq_some_iff] at h2
      obtain ⟨d, hd, rfl⟩ := h2
      exact ⟨d, hd, h3⟩
    · intro k hk d' hd'
      exact h4 k (by omega) d'.dims (by simp [List.getElem?_map, hd'])

/-- **What is stored is what the well-shaped generators delivered**: when every array has shape
`(n, R)` the call succeeds, the table has shape observations × draws × variables, and
`table[i][j][v]` is element `[i][j]` of the array of variable `v`. -/
theorem generate_draws_table {α : Type} [NumOps α] (n R : ℕ) (vars : List (Delivered α))
    (h : ∀ d ∈ vars, d.dims = [n, R]) :
    ∃ t, generateDraws n R vars = .ok t ∧ t.length = n ∧
      (∀ row ∈ t, row.length = R ∧ ∀ cell ∈ row, cell.length = vars.length) ∧
      ∀ (i j v : ℕ) (d : Delivered α), i < n → j < R → vars[v]? = some d →
        ((t[i]?.bind (·[j]?)).bind (·[v]?)) = some (elemAt R i j d.flat) := by
  have hf : firstRefused n R 0 (vars.map (·.dims)) = none := by
    rw [firstRefused_none_iff]
    intro d hd
    simp only [List.mem_map] at hd
    obtain ⟨x, hx, rfl⟩ := hd
    exact h x hx
  refine ⟨drawsTable n R (vars.map (·.flat)), by simp [generateDraws, hf], drawsTable_length _ _ _, ?_, ?_⟩
  · intro row hrow
    have := drawsTable_shape n R (vars.map (·.flat)) row hrow
    simpa using this
  · intro i j v d hi hj hv
    rw [drawsTable_row n R _ i hi]
    simp [List.getElem?_map, List.getElem?_range hj, hv]

/-! ### the normal quantile (Wichura's AS241) -/

/-- **AS241 is odd**: `Φ⁻¹(1 − p) = −Φ⁻¹(p)` holds for the published algorithm, for every p. -/
theorem as241_odd (p : ℝ) : as241 (1 - p) = -as241 p := as241_odd_real p

/-- **Branch ranges of AS241**: for `0 < p < 1` either the central rational receives
`r = 0.180625 − q² ∈ [0, 0.180625]`, or the tail probability lies in `(0, 0.075)` and the tail
rationals receive `√(−log r) − 1.6 ∈ (0, 3.4]` resp. `√(−log r) − 5 > 0`. -/
theorem as241_branch_ranges (p : ℝ) (h0 : 0 < p) (h1 : p < 1) :
    (refCentral p = true ∧ 0 ≤ 0.180625 - (p - 0.5) * (p - 0.5) ∧ 0.180625 - (p - 0.5) * (p - 0.5) ≤ (0.180625 : ℝ)) ∨
    (refCentral p = false ∧ 0 < tailArg p ∧ tailArg p < 0.075 ∧
      ((Real.sqrt (-Real.log (tailArg p)) ≤ 5 ∧ 0 < Real.sqrt (-Real.log (tailArg p)) - 1.6
          ∧ Real.sqrt (-Real.log (tailArg p)) - 1.6 ≤ 3.4) ∨
       (5 < Real.sqrt (-Real.log (tailArg p)) ∧ 0 < Real.sqrt (-Real.log (tailArg p)) - 5))) := by
  by_cases hc : refCentral p = true
  · left
    refine ⟨hc, ?_, ?_⟩
    · have := (refCentral_real p).mp hc
      rw [abs_le] at this
      nlinarith [this.1, this.2]
    · nlinarith [mul_self_nonneg (p - 0.5)]
  · right
    have hc' : refCentral p = false := by simpa using hc
    obtain ⟨t0, t1⟩ := tailArg_range p h0 h1 hc'
    refine ⟨hc', t0, t1, ?_⟩
    have hs := sqrt_neg_log_gt (tailArg p) t0 t1
    by_cases h5 : Real.sqrt (-Real.log (tailArg p)) ≤ 5
    · left; refine ⟨h5, by linarith, by norm_num at h5 ⊢; linarith⟩
    · right; push Not at h5; exact ⟨h5, by linarith⟩

/-- **Partial**: where the branch test of the code (`|u| ≤ 0.45`) and the published one
(`|u − 0.5| ≤ 0.425`) coincide — `u ∈ [0.075, 0.45]` or `u > 0.925` — the function as coded
*is* AS241.  The full statement (all `u ∈ (0,1)`) is false of the code: see the two theorems
below (known finding F02). -/
theorem wichura_agrees_partial (u : ℝ) (h : (0.075 ≤ u ∧ u ≤ 0.45) ∨ 0.925 < u) :
    wichuraCode u = as241 u := wichura_agrees u h

/-- Negation on a witness region: for every `u ∈ (0, 0.075)` the code takes the central branch
while AS241 takes a tail branch. -/
theorem wichura_wrong_branch_lower_tail (u : ℝ) (h0 : 0 < u) (h1 : u < 0.075) :
    branchOf (codeCentral u) u = Branch.central ∧ branchOf (refCentral u) u ≠ Branch.central := by
  obtain ⟨a, b⟩ := wrong_branch_low u h0 h1
  constructor
  · simp [branchOf, a]
  · rw [b]
    unfold branchOf
    simp only [Bool.false_eq_true, if_false]
    split_ifs <;> simp

/-- … and for every `u ∈ (0.45, 0.925]` the code takes a tail branch while AS241 takes the
central one (so the full agreement statement fails on more than half of the unit interval). -/
theorem wichura_wrong_branch_middle (u : ℝ) (h0 : 0.45 < u) (h1 : u ≤ 0.925) :
    branchOf (codeCentral u) u ≠ Branch.central ∧ branchOf (refCentral u) u = Branch.central := by
  obtain ⟨a, b⟩ := wrong_branch_mid u h0 h1
  constructor
  · rw [a]
    unfold branchOf
    simp only [Bool.false_eq_true, if_false]
    split_ifs <;> simp
  · simp [branchOf, b]

theorem wichura_full_agreement_false :
    ¬ (∀ u : ℝ, 0 < u → u < 1 → codeCentral u = refCentral u) := by
  intro h
  have := h 0.05 (by norm_num) (by norm_num)
  obtain ⟨a, b⟩ := wrong_branch_low 0.05 (by norm_num) (by norm_num)
  rw [a, b] at this
  cases this

/-! ### the catalogue (generated) -/

/-- **Generated obligation**: every catalogue entry (helper function as read from the source)
delivers what its description string advertises (family, base, skip, interval, antithetic,
normal). -/
theorem catalogue_matches_description : Generated.drawCatalogue.all CatEntry.ok = true := by decide

/-- **Generated obligation**: entries advertising different Halton bases start from different
numbers (first element after the skip, exact fractions, cross-multiplied). -/
theorem catalogue_distinct_bases : distinctBasesOK Generated.drawCatalogue = true := by decide

/-- … and different fractions mean different sequences: Halton draws of bases `b₁`, `b₂` after
skips `s₁`, `s₂` whose first fractions differ are different lists (they differ at index 0). -/
theorem distinct_bases_distinct_sequences (b1 b2 s1 s2 len : ℕ) (h1 : 2 ≤ b1) (h2 : 2 ≤ b2) (hl : 0 < len)
    (hq : (radInvQ b1 (s1 + 2) (s1 + 1)).1 * (radInvQ b2 (s2 + 2) (s2 + 1)).2
        ≠ (radInvQ b2 (s2 + 2) (s2 + 1)).1 * (radInvQ b1 (s1 + 2) (s1 + 1)).2) :
    (haltonDraws b1 s1 len false : List ℝ) ≠ haltonDraws b2 s2 len false := by
  rw [haltonDraws_spec b1 s1 len h1, haltonDraws_spec b2 s2 len h2]
  intro h
  have h0 := congrArg (fun l => l[0]?) h
  simp only [List.getElem?_map, List.getElem?_range hl, Option.map_some, Option.some.injEq] at h0
  simp only [Nat.zero_add] at h0
  exact radInv_ne_of_q b1 b2 s1 s2 h1 h2 hq h0

/-! ### sessions: histories of calls within one process (Model/DrawsSession.lean)

The generators keep no state and hand over arrays that belong to the caller.  A session is any
list of generator calls (catalogue entries and the generators of `draws.py` with every option,
`shuffled=True` included) mixed with in-place operations of the caller on arrays it received. -/

/-- **Every call of every history returns the stateless function of the call** — whatever was
called before (shuffled or not, same base or not) and whatever the caller did to earlier arrays. -/
theorem session_every_call_is_stateless {α : Type} [NumOps α] (ops : List (Op α)) :
    (run ops).returned = (callsOf ops).map callResult := by
  simpa [run] using runFrom_returned ops (⟨[], []⟩ : Sess α)

/-- the same, for one call after an arbitrary history -/
theorem session_call_after_any_history {α : Type} [NumOps α] (h : List (Op α)) (c : Call α) :
    (run (h ++ [Op.call c])).returned[(callsOf h).length]? = some (callResult c) := by
  rw [session_every_call_is_stateless, callsOf_append]
  simp [callsOf]

/-- **A caller's in-place operation changes the array it names and nothing else**: no other array
held by the caller, and nothing of what the calls returned. -/
theorem session_caller_writes_only_its_array {α : Type} [NumOps α] (h : List (Op α)) (op : Op α)
    (k j : ℕ) (hk : op.target = some k) (hj : j ≠ k) :
    (run (h ++ [op])).held[j]? = (run h).held[j]? ∧ (run (h ++ [op])).returned = (run h).returned := by
  have : run (h ++ [op]) = step (run h) op := by simp [run, runFrom]
  rw [this]
  exact step_frame (run h) op k j hk hj

/-- an array that no operation of the history names still holds what its call returned -/
theorem session_untouched_array_keeps_value {α : Type} [NumOps α] (ops : List (Op α)) (j : ℕ)
    (h : ∀ op ∈ ops, op.target ≠ some j) : (run ops).held[j]? = (run ops).returned[j]? :=
  runFrom_untouched j ops ⟨[], []⟩ h rfl rfl

/-- **A Halton catalogue entry called after ANY history returns the radical-inverse sequence of
its base after its skip** (rows of `R` numbers): an earlier shuffled call of the same base, or a
caller scribbling over an array of the same base, changes nothing. -/
theorem halton_entry_after_any_history (h : List (Op ℝ)) (b skip n R : ℕ) (hb : 2 ≤ b)
    (hn : 0 < n) (hR : 0 < R) (us : List ℝ) (perm : List ℕ) :
    (run (h ++ [Op.call (.cat ⟨.halton b skip, false, false, false⟩ n R us perm)])).returned[(callsOf h).length]?
      = some (.ok (chunk R n ((List.range (n * R)).map fun k => (radInv b (k + skip + 1) : ℝ)))) := by
  rw [session_call_after_any_history, callResult_halton_entry b skip n R hb hn hR]

/-- the direct call `get_halton_draws(n, R, base=b, skip=s)` after any history -/
theorem halton_call_after_any_history (h : List (Op ℝ)) (b skip n R : ℕ) (hb : 2 ≤ b)
    (hn : 0 < n) (hR : 0 < R) (perm : List ℕ) :
    (run (h ++ [Op.call (.halton b skip n R false false perm)])).returned[(callsOf h).length]?
      = some (.ok (chunk R n ((List.range (R * n)).map fun k => (radInv b (k + skip + 1) : ℝ)))) := by
  rw [session_call_after_any_history]
  exact congrArg some (haltonCall_spec b skip n R hb hn hR perm)

/-- **`shuffled=True`** delivers a permutation of the radical-inverse sequence (the flat array is
shuffled as a whole), and `shuffled=False` is the plain generator. -/
theorem halton_shuffled_is_permutation (b skip len : ℕ) (hb : 2 ≤ b) (perm : List ℕ)
    (hp : perm.Perm (List.range len)) :
    (haltonDrawsSh b skip len false true perm : List ℝ).Perm
      ((List.range len).map fun k => (radInv b (k + skip + 1) : ℝ)) ∧
    ∀ sym, (haltonDrawsSh b skip len sym false perm : List ℝ) = haltonDraws b skip len sym :=
  ⟨haltonDrawsSh_perm b skip len hb perm hp, fun sym => haltonDrawsSh_unshuffled b skip len sym perm⟩

/-- the refused requests of the direct generators, in the order of the code -/
theorem direct_calls_refuse {α : Type} [NumOps α] (n R : ℕ) (us : List α) (perm : List ℕ) :
    (haltonCall 2 0 n 0 false false perm : Arr α) = .error (.gen .badDraws) ∧
    (0 < R → (haltonCall 2 0 0 R false false perm : Arr α) = .error (.gen .badSample)) ∧
    (R % 2 = 1 → (wichuraCall n R true us : Arr α) = .error (.gen .oddDraws)) ∧
    (0 < n → 0 < R → us.length ≠ R * n → (lhsCall n R false us perm : Arr α) = .error .uniformCount) ∧
    (0 < n → 0 < R → us.length ≠ R * n → (wichuraCall n R false us : Arr α) = .error .uniformCount) := by
  refine ⟨by simp [haltonCall], ?_, ?_, ?_, ?_⟩
  · intro hR
    have : (R == 0) = false := by simp; omega
    simp [haltonCall, this]
  · intro hR
    have h0 : (R == 0) = false := by simp; omega
    simp [wichuraCall, h0, hR]
  · intro hn hR hu
    have h0 : (R == 0) = false := by simp; omega
    have h1 : (n == 0) = false := by simp; omega
    simp [lhsCall, h0, h1, hu]
  · intro hn hR hu
    have h0 : (R == 0) = false := by simp; omega
    have h1 : (n == 0) = false := by simp; omega
    simp [wichuraCall, h0, h1, hu]

/-! ### the registry of user-defined generators (`set_random_number_generators`) and name resolution -/

/-- **A catalogue name always means the catalogue entry**: after any history of registrations
(accepted or refused, in any order) a name of the catalogue resolves to its catalogued generator,
and the registry holds no catalogue name at all. -/
theorem catalogue_name_never_hijacked (cat : List CatEntry) (sets : List (List String)) (name : String)
    (e : CatEntry) (h : cat.find? (fun e => e.name == name) = some e) :
    resolve cat (registryAfter cat sets) name = .native e.gen ∧
    reservedIn cat (registryAfter cat sets) = false :=
  ⟨resolve_native cat _ name e h, registry_no_catalogue_name cat sets⟩

/-- a table with a catalogue name among its keys is refused and leaves the registry as it is; any
other table replaces the registry -/
theorem registration_replaces_or_refuses (cat : List CatEntry) (sets : List (List String)) (keys : List String) :
    registryAfter cat (sets ++ [keys]) = if reservedIn cat keys then registryAfter cat sets else keys :=
  registry_step cat sets keys

/-- a name that is neither catalogued nor registered is refused (`BiogemeError`), a registered one
is served by the user's generator -/
theorem resolve_unknown_or_user (cat : List CatEntry) (reg : List String) (name : String)
    (h : cat.find? (fun e => e.name == name) = none) :
    resolve cat reg name = if reg.contains name then .user name else .unknownType := by
  simp [resolve, h]

/-! ### non-vacuity -/

-- a history with a shuffled call, a caller's in-place operation, and a later call of the same base
example : (callsOf ([.call (.halton 3 10 2 15 false true [1, 0]), .scale 0 100,
      .call (.cat ⟨.halton 3 10, false, false, false⟩ 3 4 [] [])] : List (Op ℝ))).length = 2 := by
  simp [callsOf]

example : (Op.scale 0 (100 : ℝ)).target = some 0 ∧ (1 : ℕ) ≠ 0 := ⟨rfl, by decide⟩

example : ∀ op ∈ ([.call (.halton 2 0 1 2 false false []), .fill 0 7] : List (Op ℝ)), op.target ≠ some 1 := by
  intro op hop
  simp only [List.mem_cons, List.not_mem_nil, or_false] at hop
  rcases hop with rfl | rfl <;> simp [Op.target]

example : ([1, 2, 0] : List ℕ).Perm (List.range 3) := by decide

example : (radInvQ 2 13 11, radInvQ 3 13 11, radInvQ 5 13 11) = ((13, 16), (19, 27), (7, 25)) := by decide

example : ∀ u ∈ ([0.25, 0.5, 0.0] : List ℝ), 0 ≤ u ∧ u < 1 := by
  intro u hu
  simp only [List.mem_cons, List.not_mem_nil, or_false] at hu
  rcases hu with rfl | rfl | rfl <;> norm_num

example : ([2, 0, 1] : List ℕ).Perm (List.range 3) := by decide

example : InputsOK ⟨.halton 3 10, false, false, false⟩ 2 4 [] [] := by
  refine ⟨?_, ?_, ?_, ?_⟩
  · intro b s h; cases h; omega
  · intro h; cases h
  · intro h; cases h
  · intro h; cases h

example : InputsOK ⟨.mlhs, true, true, false⟩ 1 2 [0.25, 0.5] [1, 0] := by
  refine ⟨?_, ?_, ?_, ?_⟩
  · intro b s h; cases h
  · intro h; cases h
  · intro _; rfl
  · intro h; cases h

example : ((0.075 : ℝ) ≤ 0.3 ∧ (0.3 : ℝ) ≤ 0.45) ∨ (0.925 : ℝ) < 0.3 := by left; norm_num

example : dimsCount [8, 5] = 5 * 8 ∧ dimsAccepted 5 8 [8, 5] = false ∧ dimsAccepted 5 8 [40] = false
    ∧ dimsAccepted 5 8 [5, 8] = true := by decide

example : (generateDraws 2 3 [⟨[2, 3], [1, 2, 3, 4, 5, 6]⟩, ⟨[3, 2], [1, 2, 3, 4, 5, 6]⟩]
    : Except ℕ (List (List (List ℝ)))) = .error 1 := by
  simp [generateDraws, firstRefused, dimsAccepted]

example : Generated.drawCatalogue.length = 21 := by decide

example : (Generated.drawCatalogue.find? (fun e => e.name == "UNIFORM_HALTON3")).isSome = true := by decide

example : registryAfter Generated.drawCatalogue [["MYGEN"], ["UNIFORM_HALTON3", "LOGN"], ["EXPDRAWS"]] = ["EXPDRAWS"]
    ∧ registryAfter Generated.drawCatalogue [["MYGEN"], ["UNIFORM_HALTON3", "LOGN"]] = ["MYGEN"] := by decide

end C11
