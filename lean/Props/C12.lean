/-
C12 — invalid specifications are refused wherever the fault sits.
Property theorems only (lemmas in Proofs/Audit.lean, Proofs/Lazy.lean).  The table
`Generated.Operators.table` is regenerated from the live expression classes on every run.
-/
import Model.Audit
import Proofs.Audit
import Generated.Operators
import Model.Expr
import Proofs.Lazy

open Audit

namespace C12

/-- **Wherever the fault sits, under every operator kind (audit).**  Whatever the audit of a
sub-formula reports is reported by the audit of every formula that contains it, through any
chain of operators of any kind. -/
theorem audit_complete (d : ADag) (hwf : WF d) (db : Db) (root sub : Nat)
    (hp : Path d (fun _ => True) root sub) (x : Fault) (hx : x ∈ audit d db (sub + 1) sub) :
    x ∈ audit d db (root + 1) root :=
  audit_path d hwf db root sub hp x hx

/-- in particular: a variable that is not a column of the data, anywhere in the formula -/
theorem unknown_column_refused (d : ADag) (hwf : WF d) (db : Db) (root v : Nat) (n : ANode)
    (hp : Path d (fun _ => True) root v) (hv : d[v]? = some n) (hk : n.kind = .var)
    (hcol : db.cols.contains n.name = false) :
    Fault.unknownColumn n.name ∈ topAuditBio d db root ∧
    Fault.unknownColumn n.name ∈ topAuditExpr d db root := by
  have h1 : Fault.unknownColumn n.name ∈ audit d db (root + 1) root := by
    apply audit_path d hwf db root v hp
    apply local_in_audit d db v n hv
    simp only [localFaults, hk, hcol]
    simp
  constructor
  · simp only [topAuditBio, List.mem_append]; exact Or.inr h1
  · simp only [topAuditExpr, List.mem_append]; exact Or.inl (Or.inl (Or.inl h1))

/-- a logit whose utilities and availabilities have different keys, anywhere in the formula -/
theorem logit_keys_refused (d : ADag) (hwf : WF d) (db : Db) (root v : Nat) (n : ANode)
    (hp : Path d (fun _ => True) root v) (hv : d[v]? = some n) (hk : n.kind = .logLogit)
    (hm : n.keysMismatch = true) :
    Fault.logitKeys ∈ topAuditBio d db root ∧ Fault.logitKeys ∈ topAuditExpr d db root := by
  have h1 : Fault.logitKeys ∈ audit d db (root + 1) root := by
    apply audit_path d hwf db root v hp
    apply local_in_audit d db v n hv
    simp [localFaults, hk, hm]
  constructor
  · simp only [topAuditBio, List.mem_append]; exact Or.inr h1
  · simp only [topAuditExpr, List.mem_append]; exact Or.inl (Or.inl (Or.inl h1))

/-- **Draws outside a Monte-Carlo operator are refused wherever they sit**: a draw variable
reachable from the root through operators none of which is `MonteCarlo` is reported on both
entry paths. -/
theorem draws_outside_refused (d : ADag) (hwf : WF d) (db : Db) (root v : Nat) (n : ANode)
    (hp : Path d (fun m => m.kind ≠ .draws ∧ m.kind ≠ .monteCarlo) root v)
    (hv : d[v]? = some n) (hk : n.kind = .draws) :
    Fault.drawsOutside n.name ∈ topAuditBio d db root ∧
    Fault.drawsOutside n.name ∈ topAuditExpr d db root := by
  have h := collect_complete d hwf .draws .monteCarlo root v hp n hv hk
  constructor
  · simp only [topAuditBio, List.mem_append, List.mem_map, checkDraws]
    exact Or.inl (Or.inl (Or.inr ⟨_, h, rfl⟩))
  · simp only [topAuditExpr, List.mem_append, List.mem_map, checkDraws]
    exact Or.inl (Or.inl (Or.inr ⟨_, h, rfl⟩))

/-- the same for an integration variable outside `Integrate` -/
theorem rv_outside_refused (d : ADag) (hwf : WF d) (db : Db) (root v : Nat) (n : ANode)
    (hp : Path d (fun m => m.kind ≠ .rv ∧ m.kind ≠ .integrate) root v)
    (hv : d[v]? = some n) (hk : n.kind = .rv) :
    Fault.rvOutside n.name ∈ topAuditBio d db root ∧
    Fault.rvOutside n.name ∈ topAuditExpr d db root := by
  have h := collect_complete d hwf .rv .integrate root v hp n hv hk
  constructor
  · simp only [topAuditBio, List.mem_append, List.mem_map, checkRv]
    exact Or.inl (Or.inr ⟨_, h, rfl⟩)
  · simp only [topAuditExpr, List.mem_append, List.mem_map, checkRv]
    exact Or.inl (Or.inr ⟨_, h, rfl⟩)

/-- and for a data variable outside the trajectory operator on panel data (`BIOGEME` path) -/
theorem panel_variable_refused (d : ADag) (hwf : WF d) (db : Db) (hpanel : db.panel = true)
    (root v : Nat) (n : ANode)
    (hp : Path d (fun m => m.kind ≠ .var ∧ m.kind ≠ .panelTraj) root v)
    (hv : d[v]? = some n) (hk : n.kind = .var) :
    Fault.varOutsideTraj n.name ∈ topAuditBio d db root := by
  have h := collect_complete d hwf .var .panelTraj root v hp n hv hk
  simp only [topAuditBio, hpanel, ↓reduceIte, List.mem_append, List.mem_map, checkPanel]
  exact Or.inl (Or.inl (Or.inl ⟨_, h, rfl⟩))

/-- **No false alarm from the collectors**: a reported draw / random variable / panel variable
really sits outside its operator. -/
theorem collectors_sound (d : ADag) (what stop : AKind) (root : Nat) (name : String)
    (h : name ∈ collect d what stop (root + 1) root) :
    ∃ v n, Path d (fun m => m.kind ≠ what ∧ m.kind ≠ stop) root v ∧ d[v]? = some n ∧
      n.kind = what ∧ n.name = name :=
  collect_sound d what stop (root + 1) root name h

/-- **A specification without a fault is never rejected by the audit**: if no node has a local
fault, the audit of every node is empty. -/
theorem audit_sound (d : ADag) (hwf : WF d) (db : Db)
    (hok : ∀ (k : Nat) (n : ANode), d[k]? = some n → localFaults d db k n = []) (root : Nat) :
    audit d db (root + 1) root = [] :=
  Audit.audit_sound d hwf db hok root

/-- **The real operator classes behave as the model assumes** (generated obligation): for every
expression class found in the live package, a fault planted in *each* of its child slots is
reached by `audit`, `check_draws`, `check_rv` and `check_panel_trajectory` — except the three
operators that legitimately stop their own collector. -/
theorem table_descends : tableConforms Generated.Operators.table = true := by decide

/-! ### the missing-data code (model: `Expr.semMissing`, the engine's `bioExprVariable` test) -/

/-- **A value equal to the missing-data code is never used in a calculation.**  If the evaluation of
an observation produces a number while every variable holding the code raises an error when read,
then that number is produced whatever those variables hold: it does not depend on them. -/
theorem missing_never_used {α} [NumOps α] (code : α) (d : Expr.Dag α) (env env' : Expr.Env α)
    (hb : env'.beta = env.beta)
    (hv : ∀ name, Num.eq (env.var name) code = false → env'.var name = env.var name)
    (k : Nat) (v : α) (h : Expr.eval (Expr.semMissing code) d env k = .ok v) :
    Expr.eval Expr.semEngine d env' k = .ok v :=
  Expr.evalN_missing code d env env' hb hv (k + 1) k v h

/-- **The code in columns the row does not hold is harmless**: when no variable of the observation
equals the code, the test changes nothing (values and errors alike). -/
theorem missing_absent_harmless {α} [NumOps α] (code : α) (d : Expr.Dag α) (env : Expr.Env α)
    (hno : ∀ name, Num.eq (env.var name) code = false) (k : Nat) :
    Expr.eval (Expr.semMissing code) d env k = Expr.eval Expr.semEngine d env k :=
  Expr.evalN_missing_absent code d env hno (k + 1) k

/-- **Reading such a value fails**: the variable itself raises, and arithmetic is strict. -/
theorem missing_read_fails {α} [NumOps α] (code : α) (n : Expr.Node α) (env : Expr.Env α)
    (rs : List (Expr.Res α)) (hk : n.kind = .var) (hc : Num.eq (env.var n.name) code = true) :
    Expr.semMissing code n env rs = .error .missing ∧
    ∀ (rs' : List (Expr.Res α)) (f : α → α → α), Expr.nth rs' 0 = .error .missing →
      Expr.bin rs' f = .error .missing :=
  ⟨Expr.var_missing_errors code n env rs hk hc, fun rs' f h => Expr.bin_strict rs' f .missing (Or.inl h)⟩

/-! ### non-vacuity -/

/-- exp(b * Variable("zzz")) > 0 with `zzz` unknown, under MonteCarlo-free operators -/
def exDag : ADag :=
  [ { kind := .leaf }, { kind := .var, name := "zzz" }, { kind := .op, children := [0, 1] },
    { kind := .op, children := [2] }, { kind := .leaf }, { kind := .op, children := [3, 4] } ]

example : Fault.unknownColumn "zzz" ∈ topAuditExpr exDag { cols := ["x"], panel := false } 5 := by decide

end C12
