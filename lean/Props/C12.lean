/-
C12 — invalid specifications are refused wherever the fault sits.
Property theorems only (lemmas in Proofs/Audit.lean, Proofs/Lazy.lean).  The table
`Generated.Operators.table` is regenerated from the live expression classes on every run.
-/
import Model.Audit
import Proofs.Audit
import Generated.Operators
import Model.Expr
import Proofs.Lazy
import Model.AuditSession
import Proofs.AuditSession

open Audit

namespace C12

/-- **Wherever the fault sits, under every operator kind (audit).**  Whatever the audit of a
sub-formula reports is reported by the audit of every formula that contains it, through any
chain of operators of any kind. -/
theorem audit_complete (d : ADag) (hwf : WF d) (db : Db) (root sub : Nat)
    (hp : Path d (fun _ => True) root sub) (x : Fault) (hx : x ∈ audit d db (sub + 1) sub) :
    x ∈ audit d db (root + 1) root :=
  audit_path d hwf db root sub hp x hx

/-- in particular: a variable that is not a column of the data, anywhere in the formula -/
theorem unknown_column_refused (d : ADag) (hwf : WF d) (db : Db) (root v : Nat) (n : ANode)
    (hp : Path d (fun _ => True) root v) (hv : d[v]? = some n) (hk : n.kind = .var)
    (hcol : db.cols.contains n.name = false) :
    Fault.unknownColumn n.name ∈ topAuditBio d db root ∧
    Fault.unknownColumn n.name ∈ topAuditExpr d db root := by
  have h1 : Fault.unknownColumn n.name ∈ audit d db (root + 1) root := by
    apply audit_path d hwf db root v hp
    apply local_in_audit d db v n hv
    simp only [localFaults, hk, hcol]
    simp
  constructor
  · simp only [topAuditBio, List.mem_append]; exact Or.inr h1
  · simp only [topAuditExpr, List.mem_append]; exact Or.inl (Or.inl (Or.inl h1))

/-- a logit whose utilities and availabilities have different keys, anywhere in the formula -/
theorem logit_keys_refused (d : ADag) (hwf : WF d) (db : Db) (root v : Nat) (n : ANode)
    (hp : Path d (fun _ => True) root v) (hv : d[v]? = some n) (hk : n.kind = .logLogit)
    (hm : n.keysMismatch = true) :
    Fault.logitKeys ∈ topAuditBio d db root ∧ Fault.logitKeys ∈ topAuditExpr d db root := by
  have h1 : Fault.logitKeys ∈ audit d db (root + 1) root := by
    apply audit_path d hwf db root v hp
    apply local_in_audit d db v n hv
    simp [localFaults, hk, hm]
  constructor
  · simp only [topAuditBio, List.mem_append]; exact Or.inr h1
  · simp only [topAuditExpr, List.mem_append]; exact Or.inl (Or.inl (Or.inl h1))

/-- **Draws outside a Monte-Carlo operator are refused wherever they sit**: a draw variable
reachable from the root through operators none of which is `MonteCarlo` is reported on both
entry paths. -/
theorem draws_outside_refused (d : ADag) (hwf : WF d) (db : Db) (root v : Nat) (n : ANode)
    (hp : Path d (fun m => m.kind ≠ .draws ∧ m.kind ≠ .monteCarlo) root v)
    (hv : d[v]? = some n) (hk : n.kind = .draws) :
    Fault.drawsOutside n.name ∈ topAuditBio d db root ∧
    Fault.drawsOutside n.name ∈ topAuditExpr d db root := by
  have h := collect_complete d hwf .draws .monteCarlo root v hp n hv hk
  constructor
  · simp only [topAuditBio, List.mem_append, List.mem_map, checkDraws]
    exact Or.inl (Or.inl (Or.inr ⟨_, h, rfl⟩))
  · simp only [topAuditExpr, List.mem_append, List.mem_map, checkDraws]
    exact Or.inl (Or.inl (Or.inr ⟨_, h, rfl⟩))

/-- the same for an integration variable outside `Integrate` -/
theorem rv_outside_refused (d : ADag) (hwf : WF d) (db : Db) (root v : Nat) (n : ANode)
    (hp : Path d (fun m => m.kind ≠ .rv ∧ m.kind ≠ .integrate) root v)
    (hv : d[v]? = some n) (hk : n.kind = .rv) :
    Fault.rvOutside n.name ∈ topAuditBio d db root ∧
    Fault.rvOutside n.name ∈ topAuditExpr d db root := by
  have h := collect_complete d hwf .rv .integrate root v hp n hv hk
  constructor
  · simp only [topAuditBio, List.mem_append, List.mem_map, checkRv]
    exact Or.inl (Or.inr ⟨_, h, rfl⟩)
  · simp only [topAuditExpr, List.mem_append, List.mem_map, checkRv]
    exact Or.inl (Or.inr ⟨_, h, rfl⟩)

/-- and for a data variable outside the trajectory operator on panel data (`BIOGEME` path) -/
theorem panel_variable_refused (d : ADag) (hwf : WF d) (db : Db) (hpanel : db.panel = true)
    (root v : Nat) (n : ANode)
    (hp : Path d (fun m => m.kind ≠ .var ∧ m.kind ≠ .panelTraj) root v)
    (hv : d[v]? = some n) (hk : n.kind = .var) :
    Fault.varOutsideTraj n.name ∈ topAuditBio d db root := by
  have h := collect_complete d hwf .var .panelTraj root v hp n hv hk
  simp only [topAuditBio, hpanel, ↓reduceIte, List.mem_append, List.mem_map, checkPanel]
  exact Or.inl (Or.inl (Or.inl ⟨_, h, rfl⟩))

/-- **No false alarm from the collectors**: a reported draw / random variable / panel variable
really sits outside its operator. -/
theorem collectors_sound (d : ADag) (what stop : AKind) (root : Nat) (name : String)
    (h : name ∈ collect d what stop (root + 1) root) :
    ∃ v n, Path d (fun m => m.kind ≠ what ∧ m.kind ≠ stop) root v ∧ d[v]? = some n ∧
      n.kind = what ∧ n.name = name :=
  collect_sound d what stop (root + 1) root name h

/-- **A specification without a fault is never rejected by the audit**: if no node has a local
fault, the audit of every node is empty. -/
theorem audit_sound (d : ADag) (hwf : WF d) (db : Db)
    (hok : ∀ (k : Nat) (n : ANode), d[k]? = some n → localFaults d db k n = []) (root : Nat) :
    audit d db (root + 1) root = [] :=
  Audit.audit_sound d hwf db hok root

/-- **The real operator classes behave as the model assumes** (generated obligation): for every
expression class found in the live package, a fault planted in *each* of its child slots is
reached by `audit`, `check_draws`, `check_rv` and `check_panel_trajectory` — except the three
operators that legitimately stop their own collector. -/
theorem table_descends : tableConforms Generated.Operators.table = true := by decide

/-! ### the missing-data code (model: `Expr.semMissing`, the engine's `bioExprVariable` test) -/

/-- **A value equal to the missing-data code is never used in a calculation.**  If the evaluation of
an observation produces a number while every variable holding the code raises an error when read,
then that number is produced whatever those variables hold: it does not depend on them. -/
theorem missing_never_used {α} [NumOps α] (code : α) (d : Expr.Dag α) (env env' : Expr.Env α)
    (hb : env'.beta = env.beta)
    (hv : ∀ name, Num.eq (env.var name) code = false → env'.var name = env.var name)
    (k : Nat) (v : α) (h : Expr.eval (Expr.semMissing code) d env k = .ok v) :
    Expr.eval Expr.semEngine d env' k = .ok v :=
  Expr.evalN_missing code d env env' hb hv (k + 1) k v h

/-- **The code in columns the row does not hold is harmless**: when no variable of the observation
equals the code, the test changes nothing (values and errors alike). -/
theorem missing_absent_harmless {α} [NumOps α] (code : α) (d : Expr.Dag α) (env : Expr.Env α)
    (hno : ∀ name, Num.eq (env.var name) code = false) (k : Nat) :
    Expr.eval (Expr.semMissing code) d env k = Expr.eval Expr.semEngine d env k :=
  Expr.evalN_missing_absent code d env hno (k + 1) k

/-- **Reading such a value fails**: the variable itself raises, and arithmetic is strict. -/
theorem missing_read_fails {α} [NumOps α] (code : α) (n : Expr.Node α) (env : Expr.Env α)
    (rs : List (Expr.Res α)) (hk : n.kind = .var) (hc : Num.eq (env.var n.name) code = true) :
    Expr.semMissing code n env rs = .error .missing ∧
    ∀ (rs' : List (Expr.Res α)) (f : α → α → α), Expr.nth rs' 0 = .error .missing →
      Expr.bin rs' f = .error .missing :=
  ⟨Expr.var_missing_errors code n env rs hk hc, fun rs' f h => Expr.bin_strict rs' f .missing (Or.inl h)⟩

/-! ### one name for two kinds of element; a column absent from the data, at id assignment
(model: `Audit.prepareFaults`, `setIdFaults`, `stagedExpr`, `stagedBio` after `IdManager.prepare`,
`Variable.set_id_manager`, `Expression.prepare`, `BIOGEME.__init__`) -/

/-- **One name for two kinds of element is refused wherever the two elements sit.**  Two elementary
expressions of different id classes (parameter to be estimated, fixed parameter, integration
variable, draws) reachable from the root and bearing the same name are reported by
`IdManager.prepare`, hence on every entry path, audit skipped or not. -/
theorem duplicate_name_refused (d : ADag) (hwf : WF d) (hl : LeafWF d) (db : Db) (root v w : Nat)
    (nv nw : ANode) (hpv : Path d (fun _ => True) root v) (hpw : Path d (fun _ => True) root w)
    (hv : d[v]? = some nv) (hw : d[w]? = some nw)
    (hkv : nv.kind = .beta ∨ nv.kind = .betaFixed ∨ nv.kind = .rv ∨ nv.kind = .draws)
    (hkw : nw.kind = .beta ∨ nw.kind = .betaFixed ∨ nw.kind = .rv ∨ nw.kind = .draws)
    (hdiff : nv.kind ≠ nw.kind) (hname : nv.name = nw.name) :
    Fault.duplicateName nv.name ∈ prepareFaults d db root ∧
    stagedExpr d db root ≠ [] ∧ ∀ skip, stagedBio d db root skip ≠ [] := by
  have key : Fault.duplicateName nv.name ∈ prepareFaults d db root := by
    unfold prepareFaults
    apply List.mem_map_of_mem
    rw [List.mem_eraseDups, mem_dupsOf]
    have mv : ∀ k, nv.kind = k → (k = .beta ∨ k = .betaFixed ∨ k = .rv ∨ k = .draws) →
        0 < ((names d k (root + 1) root).eraseDups).count nv.name := by
      intro k hk hel
      apply List.count_pos_iff.mpr
      rw [List.mem_eraseDups]
      exact names_complete d hwf hl k (by rcases hel with h | h | h | h <;> simp [h]) root v hpv nv hv hk
    have mw : ∀ k, nw.kind = k → (k = .beta ∨ k = .betaFixed ∨ k = .rv ∨ k = .draws) →
        0 < ((names d k (root + 1) root).eraseDups).count nv.name := by
      intro k hk hel
      apply List.count_pos_iff.mpr
      rw [List.mem_eraseDups, hname]
      exact names_complete d hwf hl k (by rcases hel with h | h | h | h <;> simp [h]) root w hpw nw hw hk
    simp only [mergedNames, List.count_append]
    rcases hkv with h1 | h1 | h1 | h1 <;> rcases hkw with h2 | h2 | h2 | h2 <;>
      first
      | (exfalso; exact hdiff (h1.trans h2.symm))
      | (have a := mv _ h1 (by simp); have b := mw _ h2 (by simp); omega)
  refine ⟨key, ?_, fun skip => ?_⟩
  · exact firstNonEmpty_ne_nil _ _ (by simp) (List.ne_nil_of_mem key)
  · exact firstNonEmpty_ne_nil _ _ (by simp) (List.ne_nil_of_mem key)

/-- a parameter, integration variable or draw named as a column of the data, anywhere -/
theorem name_of_column_refused (d : ADag) (hwf : WF d) (hl : LeafWF d) (db : Db) (root v : Nat)
    (nv : ANode) (hpv : Path d (fun _ => True) root v) (hv : d[v]? = some nv)
    (hkv : nv.kind = .beta ∨ nv.kind = .betaFixed ∨ nv.kind = .rv ∨ nv.kind = .draws)
    (hcol : nv.name ∈ db.cols) :
    Fault.duplicateName nv.name ∈ prepareFaults d db root := by
  unfold prepareFaults
  apply List.mem_map_of_mem
  rw [List.mem_eraseDups, mem_dupsOf]
  have mv : ∀ k, nv.kind = k → (k = .beta ∨ k = .betaFixed ∨ k = .rv ∨ k = .draws) →
      0 < ((names d k (root + 1) root).eraseDups).count nv.name := by
    intro k hk hel
    apply List.count_pos_iff.mpr
    rw [List.mem_eraseDups]
    exact names_complete d hwf hl k (by rcases hel with h | h | h | h <;> simp [h]) root v hpv nv hv hk
  have hc : 0 < db.cols.count nv.name := List.count_pos_iff.mpr hcol
  simp only [mergedNames, List.count_append]
  rcases hkv with h1 | h1 | h1 | h1 <;> (have a := mv _ h1 (by simp); omega)

/-- **A column absent from the data is refused at id assignment whatever else bears its name**:
the variable is reported by `Variable.set_id_manager` although a parameter, draw or integration
variable of the same name is registered; so every entry path refuses, audit skipped or not. -/
theorem absent_column_refused_at_ids (d : ADag) (hwf : WF d) (hl : LeafWF d) (db : Db) (root v : Nat)
    (n : ANode) (hp : Path d (fun _ => True) root v) (hv : d[v]? = some n) (hk : n.kind = .var)
    (hcol : db.cols.contains n.name = false) :
    Fault.unknownColumn n.name ∈ setIdFaults d db root ∧
    stagedExpr d db root ≠ [] ∧ ∀ skip, stagedBio d db root skip ≠ [] := by
  have key : Fault.unknownColumn n.name ∈ setIdFaults d db root := by
    unfold setIdFaults
    apply List.mem_map_of_mem
    rw [List.mem_filter]
    refine ⟨names_complete d hwf hl .var (by simp) root v hp n hv hk, ?_⟩
    rw [hcol]; rfl
  refine ⟨key, ?_, fun skip => ?_⟩
  · exact firstNonEmpty_ne_nil _ _ (by simp) (List.ne_nil_of_mem key)
  · exact firstNonEmpty_ne_nil _ _ (by simp) (List.ne_nil_of_mem key)

/-- **No false alarm at id assignment**: a reported duplicate is the name of an element of the
formula that is also a column or the name of an element of another id class; a reported absent
column is the name of a variable of the formula that is no column. -/
theorem ids_sound (d : ADag) (db : Db) (root : Nat) :
    (∀ name, Fault.unknownColumn name ∈ setIdFaults d db root →
      db.cols.contains name = false ∧
      ∃ v n, Path d (fun _ => True) root v ∧ d[v]? = some n ∧ n.kind = .var ∧ n.name = name) ∧
    ((mergedNames d db root).Nodup → prepareFaults d db root = []) := by
  constructor
  · intro name h
    unfold setIdFaults at h
    rw [List.mem_map] at h
    obtain ⟨x, hx, he⟩ := h
    injection he with he
    subst he
    rw [List.mem_filter] at hx
    exact ⟨by simpa using hx.2, names_sound d .var root x hx.1⟩
  · intro h
    unfold prepareFaults
    rw [dupsOf_nodup _ h]
    rfl

/-- the stages invent nothing: what an entry path reports is reported by one of its stages -/
theorem staged_reports_stage_faults (d : ADag) (db : Db) (root : Nat) (x : Fault) :
    (x ∈ stagedExpr d db root → x ∈ prepareFaults d db root ∨ x ∈ setIdFaults d db root ∨ x ∈ topAuditExpr d db root) ∧
    (∀ skip, x ∈ stagedBio d db root skip →
      x ∈ topAuditBio d db root ∨ x ∈ prepareFaults d db root ∨ x ∈ setIdFaults d db root) := by
  constructor
  · intro h
    obtain ⟨l, hl, hx⟩ := firstNonEmpty_mem _ x h
    simp only [List.mem_cons, List.not_mem_nil, or_false] at hl
    rcases hl with rfl | rfl | rfl
    · exact Or.inl hx
    · exact Or.inr (Or.inl hx)
    · exact Or.inr (Or.inr hx)
  · intro skip h
    obtain ⟨l, hl, hx⟩ := firstNonEmpty_mem _ x h
    simp only [List.mem_cons, List.not_mem_nil, or_false] at hl
    rcases hl with rfl | rfl | rfl
    · cases skip
      · exact Or.inl (by simpa using hx)
      · simp at hx
    · exact Or.inr (Or.inl hx)
    · exact Or.inr (Or.inr hx)

/-! ### non-numeric, NaN or empty data (model: `Audit.dataAuditNew` = `Database(...)`,
`dataAuditBio` = the audit repeated by `BIOGEME(...)`, both on the frame held at the time of the call) -/

/-- **Non-numeric, NaN or empty data is refused** by `Database(...)` and again by `BIOGEME(...)`. -/
theorem data_fault_refused (f : FrameInfo)
    (h : f.rows = 0 ∨ ∃ c ∈ f.cols, c.numeric = false ∨ c.hasNaN = true) :
    dataAuditNew f ≠ [] ∧ dataAuditBio f ≠ [] := by
  have hfa : (∃ c ∈ f.cols, c.numeric = false ∨ c.hasNaN = true) → frameAudit f ≠ [] := by
    rintro ⟨c, hc, hcn | hcn⟩
    · apply List.ne_nil_of_mem (a := DataFault.nonNumeric c.name)
      unfold frameAudit
      rw [List.mem_append]
      left
      exact List.mem_map.mpr ⟨c, List.mem_filter.mpr ⟨hc, by simp [hcn]⟩, rfl⟩
    · apply List.ne_nil_of_mem (a := DataFault.nan)
      unfold frameAudit
      rw [List.mem_append]
      right
      have : f.cols.any (·.hasNaN) = true := List.any_eq_true.mpr ⟨c, hc, hcn⟩
      simp [this]
  rcases h with h0 | hc
  · simp [dataAuditNew, dataAuditBio, h0]
  · have := hfa hc
    constructor
    · unfold dataAuditNew
      split
      · simp
      · exact this
    · unfold dataAuditBio
      intro h
      exact this (List.append_eq_nil_iff.mp h).2

/-- **Valid data is never refused.** -/
theorem data_valid_accepted (f : FrameInfo) (hr : f.rows ≠ 0)
    (hc : ∀ c ∈ f.cols, c.numeric = true ∧ c.hasNaN = false) :
    dataAuditNew f = [] ∧ dataAuditBio f = [] := by
  have h1 : f.cols.filter (fun c => !c.numeric) = [] := by
    rw [List.filter_eq_nil_iff]
    intro c hcm
    simp [(hc c hcm).1]
  have h2 : f.cols.any (·.hasNaN) = false := by
    rw [List.any_eq_false]
    intro c hcm
    simp [(hc c hcm).2]
  have hfa : frameAudit f = [] := by simp [frameAudit, h1, h2]
  have hr' : (f.rows == 0) = false := by simpa using hr
  simp [dataAuditNew, dataAuditBio, hfa, hr']

/-! ### round 3 — the ROW that holds a data-dependent fault (model: `Audit.logitDataFaults`, after
`LogLogit.audit` and `Database.check_availability_of_chosen_alt`) -/

/-- **A choice that is no alternative is refused whichever row holds it** — first, middle, last or
only row — with availability conditions or without (`av = None`: `avKeys = alts`), keys of the two
dictionaries consistent or not. -/
theorem choice_row_refused (L : LogitData) (i : Nat) (c : Int)
    (hc : L.choices[i]? = some c) (hn : L.alts.contains c = false) : logitDataFaults L ≠ [] :=
  logitDataFaults_ne_nil L i c hc hn

/-- The audit's dedicated test (`np.argwhere(...).any()`) alone does NOT see a fault that sits in row
0 only (witness); the refusal of that case rests on the lookup of the chosen alternative among the
availabilities, which the model therefore contains. -/
theorem dedicated_test_misses_first_row :
    argwhereAny (incorrectRows [1, 2] 0 [-1, 1, 2]) = false ∧
    logitDataFaults { alts := [1, 2], avKeys := [1, 2], choices := [-1, 1, 2] } = [.logitChoice] := by
  decide

/-- **No false alarm from the rows**: consistent keys and every choice an alternative — nothing is
reported (an unavailable chosen alternative is a warning, not an error). -/
theorem choice_rows_sound (L : LogitData) (hk : keysConsistent L = true)
    (h : ∀ c ∈ L.choices, L.alts.contains c = true) : logitDataFaults L = [] :=
  logitDataFaults_nil L hk h

/-- … and the logit that reads such a row may sit **anywhere in the formula**: both entry paths
refuse (ids in order or not). -/
theorem choice_row_refused_anywhere (d : ADag) (hwf : WF d) (db : Db) (root v : Nat) (n : ANode)
    (L : LogitData) (hp : Path d (fun _ => True) root v) (hv : d[v]? = some (L.flags n))
    (hk : n.kind = .logLogit) (i : Nat) (c : Int) (hc : L.choices[i]? = some c)
    (hn : L.alts.contains c = false) :
    stagedExpr d db root ≠ [] ∧ stagedBio d db root false ≠ [] := by
  have hloc : localFaults d db v (L.flags n) = logitDataFaults L := by
    simp only [localFaults, LogitData.flags, hk, logitDataFaults]
    cases keysConsistent L <;> rfl
  have hne := logitDataFaults_ne_nil L i c hc hn
  obtain ⟨x, hx⟩ := List.exists_mem_of_ne_nil _ hne
  have h1 : x ∈ audit d db (root + 1) root :=
    audit_path d hwf db root v hp x (local_in_audit d db v _ hv x (by rw [hloc]; exact hx))
  have he : topAuditExpr d db root ≠ [] := by
    apply List.ne_nil_of_mem (a := x)
    simp only [topAuditExpr, List.mem_append]; exact Or.inl (Or.inl (Or.inl h1))
  have hb : topAuditBio d db root ≠ [] := by
    apply List.ne_nil_of_mem (a := x)
    simp only [topAuditBio, List.mem_append]; exact Or.inr h1
  exact ⟨firstNonEmpty_ne_nil _ _ (by simp) he, firstNonEmpty_ne_nil _ _ (by simp) hb⟩

/-- `LogLogit.get_value` (evaluation without data): a chosen alternative that is no key of the
utilities is refused. -/
theorem get_value_choice_refused (L : LogitData) (c : Int) (hn : L.alts.contains c = false) :
    getValueRefuses L c = true := by
  unfold getValueRefuses
  rw [hn]; rfl

/-! ### round 3 — nests that overlap or leave the choice set (model: `Audit.nestAudit`, after
`Nests.__init__` and `NestsForNestedLogit.check_intersection / check_partition`) -/

/-- **Two nests that share an alternative are refused wherever they sit in the tuple of nests**
(adjacent or not), and so is an alternative outside the choice set. -/
theorem nests_refused (choiceSet : List Int) (nests : List (List Int)) :
    (∀ i j a, i < nests.length → j < nests.length → i ≠ j → a ∈ nests.getD i [] →
      a ∈ nests.getD j [] → nestAudit choiceSet nests ≠ .accepted) ∧
    (∀ a, a ∈ nests.flatten → a ∉ choiceSet → nestAudit choiceSet nests = .outsideChoiceSet) := by
  constructor
  · intro i j a hi hj hij hai haj
    have := nestsOverlap_of_common nests i j hi hj hij a hai haj
    unfold nestAudit
    split
    · simp
    · simp [this]
  · intro a ha hn
    have : nestsOutside choiceSet nests ≠ [] := by
      apply List.ne_nil_of_mem (a := a)
      unfold nestsOutside
      rw [List.mem_filter]
      exact ⟨ha, by simpa using hn⟩
    simp [nestAudit, this]

/-- **Disjoint nests inside the choice set are never refused.** -/
theorem nests_sound (choiceSet : List Int) (nests : List (List Int))
    (hin : ∀ a ∈ nests.flatten, a ∈ choiceSet)
    (hdis : ∀ i j, i < nests.length → j < nests.length → i ≠ j →
      ∀ a ∈ nests.getD i [], a ∉ nests.getD j []) :
    nestAudit choiceSet nests = .accepted := by
  have h1 : nestsOutside choiceSet nests = [] := by
    unfold nestsOutside
    rw [List.filter_eq_nil_iff]
    intro a ha
    simpa using hin a ha
  simp [nestAudit, h1, nestsOverlap_false nests hdis]

/-- **The verdict on nests depends on their alternatives only, never on their names**: names given
twice, a given name equal to a default name `nest_<position>`, a name kept from an earlier
specification — two tuples of nests with the same alternatives get the same verdict. -/
theorem nest_names_irrelevant (choiceSet : List Int) (ns ms : List NamedNest)
    (h : ns.map (·.alts) = ms.map (·.alts)) :
    nestAuditNamed choiceSet ns = nestAuditNamed choiceSet ms := by
  simp only [nestAuditNamed, assignNames_alts, h]

/-- in particular **nests that share a name and an alternative with any other nest are refused**. -/
theorem named_overlap_refused (choiceSet : List Int) (ns : List NamedNest) (i j : Nat) (a : Int)
    (hi : i < ns.length) (hj : j < ns.length) (hij : i ≠ j)
    (hai : a ∈ (ns.map (·.alts)).getD i []) (haj : a ∈ (ns.map (·.alts)).getD j []) :
    nestAuditNamed choiceSet ns ≠ .accepted := by
  simp only [nestAuditNamed, assignNames_alts]
  exact (nests_refused choiceSet (ns.map (·.alts))).1 i j a (by simpa using hi) (by simpa using hj) hij hai haj

/-! ### round 3 — histories on the same objects (model: `Audit.run`, a state machine over
`SOp`: evaluations through either entry path, data edited in place, `database.panel()`, another
member of the catalog selected, columns dropped / added) -/

/-- **An evaluation leaves nothing behind**: the objects after a history are those after its edits. -/
theorem evaluations_leave_no_trace (ops : List SOp) (s : SState) :
    final ops s = final (edits ops) s :=
  (final_edits ops s).symm

/-- **A later evaluation is judged like a first one.**  After any history `ops` (earlier evaluations,
accepted or refused, interleaved with edits) the verdict of an evaluation is the verdict the same
evaluation gets as the FIRST evaluation after the edits alone: the staged checks of its entry path on
the current formula and the current data. -/
theorem reevaluation_like_first (ops : List SOp) (s : SState) (e : SOp) (he : e.isEval = true) :
    (run (ops ++ [e]) s).getLast? = (final (edits ops) s).verdict e ∧
    run (edits ops ++ [e]) s = ((final (edits ops) s).verdict e).toList := by
  obtain ⟨v, hv, hr⟩ := run_single_eval (final ops s) e he
  constructor
  · rw [run_append, hr, final_edits, hv]
    simp
  · rw [run_append, run_edits, final_edits, hr, hv]
    simp

/-- in particular: **once the specification has become invalid, the next evaluation on the same
objects is refused**, whatever was evaluated before … -/
theorem reevaluation_refused (ops : List SOp) (s : SState)
    (hbad : stagedExpr (final ops s).dag (final ops s).db (final ops s).root ≠ []) :
    ∃ v, (run (ops ++ [.evalExpr]) s).getLast? = some v ∧ v ≠ [] := by
  refine ⟨_, ?_, hbad⟩
  rw [run_append]
  simp [run, SState.verdict]

/-- … and **once it has become valid it is accepted**, whatever was refused before. -/
theorem reevaluation_accepted (ops : List SOp) (s : SState)
    (hok : stagedExpr (final ops s).dag (final ops s).db (final ops s).root = []) :
    (run (ops ++ [.evalExpr]) s).getLast? = some [] := by
  rw [run_append]
  simp [run, SState.verdict, hok]

/-- **Histories × positions**: after any history, whatever check fails at ANY node of the current
formula (current selection of the catalog, current columns, current panel declaration, current
rows) is reported by the next evaluation on the same objects, on both entry paths. -/
theorem current_fault_refused (ops : List SOp) (s t : SState) (ht : t = final ops s) (hwf : WF t.dag)
    (k : Nat) (n : ANode) (x : Fault) (hp : Path t.dag (fun _ => True) t.root k)
    (hk : t.dag[k]? = some n) (hx : x ∈ localFaults t.dag t.db k n) :
    (∃ w, (run (ops ++ [.evalExpr]) s).getLast? = some w ∧ w ≠ []) ∧
    (∃ w, (run (ops ++ [.evalBio false]) s).getLast? = some w ∧ w ≠ []) := by
  have h1 : x ∈ audit t.dag t.db (t.root + 1) t.root :=
    audit_path t.dag hwf t.db t.root k hp _ (local_in_audit t.dag t.db k n hk _ hx)
  have he : topAuditExpr t.dag t.db t.root ≠ [] := by
    apply List.ne_nil_of_mem (a := x)
    simp only [topAuditExpr, List.mem_append]; exact Or.inl (Or.inl (Or.inl h1))
  have hb : topAuditBio t.dag t.db t.root ≠ [] := by
    apply List.ne_nil_of_mem (a := x)
    simp only [topAuditBio, List.mem_append]; exact Or.inr h1
  constructor
  · apply reevaluation_refused
    rw [← ht]
    exact firstNonEmpty_ne_nil _ _ (by simp) he
  · refine ⟨stagedBio t.dag t.db t.root false, ?_, firstNonEmpty_ne_nil _ _ (by simp) hb⟩
    rw [run_append, ← ht]
    simp [run, SState.verdict]

/-- **`database.panel()` declared at any point of a history**: from then on a MonteCarlo operator
without trajectory operator below it, wherever it sits in the selected formula, is refused at the
next evaluation — however many evaluations on flat data were accepted before. -/
theorem declared_panel_mc_refused (pre post : List SOp) (s t : SState)
    (ht : t = final (pre ++ [.declarePanel] ++ post) s)
    (c : Spec) (hsel : t.configs[t.sel]? = some c) (hno : t.logit = none) (hwf : WF c.dag)
    (k : Nat) (n : ANode) (hp : Path c.dag (fun _ => True) c.root k) (hk : c.dag[k]? = some n)
    (hkind : n.kind = .monteCarlo) (hnt : n.children.any (embeds c.dag .panelTraj k) = false) :
    ∃ w, (run (pre ++ [.declarePanel] ++ post ++ [.evalExpr]) s).getLast? = some w ∧ w ≠ [] := by
  have hpanel : t.panel = true := by
    rw [ht, final_append]
    apply panel_stays
    rw [final_append]
    simp [final, SState.apply]
  have hdag : t.dag = c.dag := by simp [SState.dag, hsel, hno]
  have hroot : t.root = c.root := by
    simp only [SState.root, List.getD_eq_getElem?_getD, hsel, Option.getD_some]
  have hx : Fault.mcPanelNoTraj ∈ localFaults t.dag t.db k n := by
    rw [hdag]
    simp [localFaults, hkind, SState.db, hpanel, hnt]
  exact (current_fault_refused _ s t ht (by rw [hdag]; exact hwf) k n _ (by rw [hdag, hroot]; exact hp)
    (by rw [hdag]; exact hk) hx).1

/-- **A choice edited in place to a value that is no alternative is refused at the next evaluation**,
whatever the history before the edit, whichever row is edited, wherever the logit sits in the
selected formula. -/
theorem edited_choice_refused (ops : List SOp) (s : SState) (row : Nat) (v : Int)
    (t : SState) (ht : t = final (ops ++ [.setChoice row v]) s)
    (c : Spec) (hsel : t.configs[t.sel]? = some c) (hwf : WF c.dag)
    (L : LogitData) (hL : t.logit = some L)
    (hv : L.alts.contains v = false) (hcell : L.choices[row]? = some v)
    (k : Nat) (n : ANode) (hp : Path t.dag (fun _ => True) c.root k) (hk : c.dag[k]? = some n)
    (hkind : n.kind = .logLogit) :
    ∃ w, (run (ops ++ [.setChoice row v, .evalExpr]) s).getLast? = some w ∧ w ≠ [] := by
  have hdag : t.dag = c.dag.map fun n => if n.kind == .logLogit then L.flags n else n := by
    simp [SState.dag, hsel, hL]
  have hroot : t.root = c.root := by
    simp only [SState.root, List.getD_eq_getElem?_getD, hsel, Option.getD_some]
  have hwf' : WF t.dag := by
    rw [hdag]
    apply wf_map_flags _ _ _ hwf
    intro m; split <;> rfl
  have hnode : t.dag[k]? = some (L.flags n) := by
    rw [hdag, List.getElem?_map, hk]
    simp [hkind]
  have hbad := (choice_row_refused_anywhere t.dag hwf' t.db c.root k n L hp hnode hkind row v hcell hv).1
  have e : ops ++ [SOp.setChoice row v, SOp.evalExpr] = (ops ++ [SOp.setChoice row v]) ++ [SOp.evalExpr] := by simp
  rw [e]
  apply reevaluation_refused
  rw [← ht, hroot]
  exact hbad

/-! ### non-vacuity -/

/-- exp(b * Variable("zzz")) > 0 with `zzz` unknown, under MonteCarlo-free operators -/
def exDag : ADag :=
  [ { kind := .leaf }, { kind := .var, name := "zzz" }, { kind := .op, children := [0, 1] },
    { kind := .op, children := [2] }, { kind := .leaf }, { kind := .op, children := [3, 4] } ]

example : Fault.unknownColumn "zzz" ∈ topAuditExpr exDag { cols := ["x"], panel := false } 5 := by decide

/-- Beta("cost") * Variable("cost") + Variable("x") on data whose column is spelled "COST" -/
def exCost : ADag :=
  [ { kind := .beta, name := "cost" }, { kind := .var, name := "cost" }, { kind := .op, children := [0, 1] },
    { kind := .var, name := "x" }, { kind := .op, children := [2, 3] } ]

example : stagedExpr exCost { cols := ["x", "COST"], panel := false } 4 = [.unknownColumn "cost"] := by decide
example : stagedBio exCost { cols := ["x", "COST"], panel := false } 4 true = [.unknownColumn "cost"] := by decide
/-- the same formula when the column exists: one name for a parameter and a variable -/
example : stagedExpr exCost { cols := ["x", "cost"], panel := false } 4 = [.duplicateName "cost"] := by decide
/-- MonteCarlo(Beta("s") * bioDraws("s")): hypotheses of `duplicate_name_refused` are satisfiable -/
def exDup : ADag :=
  [ { kind := .beta, name := "s" }, { kind := .draws, name := "s" }, { kind := .op, children := [0, 1] },
    { kind := .monteCarlo, children := [2] } ]
example : prepareFaults exDup { cols := ["x"], panel := false } 3 = [.duplicateName "s"] := by decide
example : dataAuditBio { cols := [{ name := "x", numeric := true, hasNaN := true }], rows := 3 } = [.nan] := by decide
example : dataAuditNew { cols := [{ name := "x", numeric := true, hasNaN := false }], rows := 3 } = [] := by decide

/-- the faulty row first / in the middle / last / alone; without availability conditions -/
example : logitDataFaults { alts := [10, 20, 30], avKeys := [10, 20, 30], choices := [0, 10, 20] } ≠ [] :=
  choice_row_refused _ 0 0 rfl (by decide)
example : logitDataFaults { alts := [10, 20, 30], avKeys := [10, 20, 30], choices := [10, -1, 20] } ≠ [] :=
  choice_row_refused _ 1 (-1) rfl (by decide)
example : logitDataFaults { alts := [10, 20, 30], avKeys := [10, 20, 30], choices := [10, 20, 99] } ≠ [] :=
  choice_row_refused _ 2 99 rfl (by decide)
example : logitDataFaults { alts := [10, 20, 30], avKeys := [10, 20, 30], choices := [0] } = [.logitChoice] := by decide
example : logitDataFaults { alts := [10, 20, 30], avKeys := [30, 20, 10], choices := [10, 30, 20] } = [] :=
  choice_rows_sound _ (by decide) (by decide)
/-- nests 1 and 3 of three overlap -/
example : nestAudit [1, 2, 3, 4, 5] [[1, 2], [3, 4], [5, 1]] = .overlap := by decide
example : nestAudit [1, 2, 3, 4, 5] [[1, 2], [3, 4], [5]] = .accepted :=
  nests_sound _ _ (by decide) (by
    intro i j hi hj hij
    rcases i with _ | _ | _ | i <;> rcases j with _ | _ | _ | j <;>
      first | (exfalso; exact hij rfl) | (exfalso; simp at hi; omega) | (exfalso; simp at hj; omega) | decide)
example : nestAudit [1, 2, 3, 4] [[1, 2], [3, 9]] = .outsideChoiceSet := by decide

/-- exp(loglogit({1: b*x, 2: 0}, None, choice)): the formula of the session examples -/
def exLogit : ADag :=
  [ { kind := .var, name := "choice" }, { kind := .beta, name := "b" }, { kind := .var, name := "x" },
    { kind := .op, children := [1, 2] }, { kind := .leaf }, { kind := .leaf }, { kind := .leaf },
    { kind := .logLogit, children := [0, 3, 4, 5, 6] }, { kind := .op, children := [7] } ]
def exState : SState :=
  { configs := [{ dag := exLogit, root := 8 }], sel := 0, cols := ["x", "choice", "ID"], panel := false,
    logit := some { alts := [1, 2], avKeys := [1, 2], choices := [1, 2, 1, 2, 2] } }
/-- evaluated, then the choice of the FIRST row is set to 3 in place, evaluated again: accepted, refused;
a valid edit afterwards: accepted again -/
example : run [.evalExpr, .setChoice 0 3, .evalExpr, .evalBio false, .setChoice 0 2, .evalExpr] exState
    = [[], [.logitChoice], [.logitChoice], []] := by decide
/-- MonteCarlo(exp(catalog)) with members b*x + draws | b*x; flat data, then declared panel -/
def exMc (withDraws : Bool) : Spec :=
  { dag := [ { kind := .beta, name := "b" }, { kind := .var, name := "x" }, { kind := .op, children := [0, 1] },
             (if withDraws then { kind := .draws, name := "xi" } else { kind := .leaf }),
             { kind := .op, children := [2, 3] }, { kind := .catalog, children := [4] },
             { kind := .op, children := [5] }, { kind := .monteCarlo, children := [6] } ], root := 7 }
def exMcState : SState :=
  { configs := [exMc true, exMc false], sel := 0, cols := ["x", "ID"], panel := false, logit := none }
example : run [.evalExpr, .select 1, .evalExpr, .select 0, .evalExpr, .declarePanel, .evalExpr, .dropColumn "x", .evalExpr]
    exMcState = [[], [.mcNoDraws], [], [.mcPanelNoTraj], [.unknownColumn "x"]] := by decide
/-- hypotheses of `declared_panel_mc_refused` / `current_fault_refused` are satisfiable: the formula of
`exMcState` after [evaluation, panel(), evaluation] -/
example : ∃ w, (run ([.evalExpr] ++ [.declarePanel] ++ [.evalExpr] ++ [.evalExpr]) exMcState).getLast? = some w ∧ w ≠ [] :=
  declared_panel_mc_refused [.evalExpr] [.evalExpr] exMcState _ rfl (exMc true) rfl rfl (by
      intro k n hk c hc
      rcases k with _ | _ | _ | _ | _ | _ | _ | _ | k <;> simp [exMc] at hk <;> subst hk <;> simp at hc <;> omega) 7
    _ (Path.refl _) rfl rfl (by decide)
/-- a nest copied with its name kept; a given name equal to the default name of another position -/
example : nestAuditNamed [1, 2, 3, 4, 5] [⟨some "A", [1, 2]⟩, ⟨some "B", [2, 3]⟩, ⟨some "A", [4, 5]⟩] = .overlap := by decide
example : nestAuditNamed [1, 2, 3, 4, 5] [⟨some "nest_2", [1, 2]⟩, ⟨none, [3, 4]⟩, ⟨none, [5, 1]⟩] = .overlap := by decide
example : nestAuditNamed [1, 2, 3, 4] [⟨some "A", [1, 2]⟩, ⟨some "A", [3, 4]⟩] = .accepted := by decide

end C12
