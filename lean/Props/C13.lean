/-
C13 — data-set transformations keep rows and values intact.
Property theorems only (helper lemmas in Proofs/Table.lean).
-/
import Model.Table
import Proofs.Table
import Model.TableTools
import Proofs.TableTools
import Model.TableMdcev
import Proofs.TableMdcev

namespace C13

open Tbl

variable {α : Type}

/-- the comparison `==` of the number type decides equality (true of Python/numpy numbers
other than NaN; the `Database` constructor refuses NaN) -/
def EqOK (α : Type) [NumOps α] : Prop := ∀ a b : α, Num.eq a b = true ↔ a = b

/-! ## remove -/

/-- **`remove` deletes exactly the rows whose condition is non-zero and reports their
number** (any label index — gaps, any order): the rows kept are, in order, those on which
the condition evaluates to zero; `excludedData` is the number of the others; nothing else
changes. -/
theorem remove_exact [NumOps α] (rows : List (Row α)) (vals : List α) (h : vals.length = rows.length) :
    keepPositional rows (dropMask vals) = ((rows.zip vals).filter fun p => !nz p.2).map (·.1) ∧
    countTrue (dropMask vals) = vals.countP nz ∧
    (keepPositional rows (dropMask vals)).length + countTrue (dropMask vals) = rows.length := by
  have hm : (dropMask vals).length = rows.length := by simp [dropMask, h]
  refine ⟨?_, ?_, keepPositional_length rows _ hm⟩
  · rw [keepPositional_eq rows _ hm]
    simp only [dropMask, List.zip_map_right, List.filter_map, List.map_map]
    rfl
  · simp [countTrue, dropMask, List.countP_map]

/-- the call on the object: refused on an empty table, otherwise as above (without panel) -/
theorem remove_call [NumOps α] (db : DB α) (f : Fm α) (hne : db.t.rows.isEmpty = false)
    (hv : varsKnown db.t.cols f = true) (hp : db.panelCol = none) :
    db.remove f = .ok { db with
      t := { db.t with rows := keepPositional db.t.rows (dropMask (db.t.eval f)) },
      excluded := countTrue (dropMask (db.t.eval f)) } := by
  simp [DB.remove, hne, hv, DB.rebuild, hp]

/-- **The code drops by label; with pairwise different labels that is the same thing.** -/
theorem remove_by_label_ok (rows : List (Row α)) (m : List Bool) (h : m.length = rows.length)
    (hnd : (rows.map (·.1)).Nodup) : keepByLabel rows m = keepPositional rows m :=
  keepByLabel_eq_positional rows m h hnd

/-! ## add column, scale -/

/-- **`add_column` / `define_variable` store, for every row, the value of the formula on that
row** and touch nothing else: same labels, every old cell unchanged, new last column. -/
theorem addcol_values [NumOps α] (t : Table α) (name : String) (f : Fm α)
    (hw : ∀ r ∈ t.rows, r.2.length = t.cols.length) :
    (t.addCol name f).cols = t.cols ++ [name] ∧
    (t.addCol name f).labels = t.labels ∧
    (t.addCol name f).column t.cols.length = t.eval f ∧
    ∀ j, j < t.cols.length → (t.addCol name f).column j = t.column j := by
  refine ⟨rfl, by simp [Table.addCol, Table.labels, List.map_map, Function.comp_def], ?_, ?_⟩
  · simp only [Table.column, Table.addCol, List.map_map, Table.eval]
    apply List.map_congr_left
    intro r hr
    simp only [Function.comp, cellD]
    rw [List.getD_eq_getElem?_getD, ← hw r hr]
    simp
  · intro j hj
    simp only [Table.column, Table.addCol, List.map_map]
    apply List.map_congr_left
    intro r hr
    exact cellD_append r.2 _ j (by rw [hw r hr]; exact hj)

/-- **`scale_column` multiplies exactly one column.** -/
theorem scale_one_column [NumOps α] (t : Table α) (j : Nat) (s : α) :
    (t.scaleCol j s).cols = t.cols ∧ (t.scaleCol j s).labels = t.labels ∧
    (∀ i, i ≠ j → (t.scaleCol j s).column i = t.column i) ∧
    (t.scaleCol j s).rows.map (fun r => r.2[j]?) = t.rows.map (fun r => r.2[j]?.map (NumOps.mul · s)) := by
  refine ⟨rfl, by simp [Table.scaleCol, Table.labels, List.map_map, Function.comp_def], ?_, ?_⟩
  · intro i hi
    simp only [Table.column, Table.scaleCol, List.map_map]
    apply List.map_congr_left
    intro r _
    exact cellD_modifyAt_ne _ r.2 i j hi
  · simp only [Table.scaleCol, List.map_map]
    apply List.map_congr_left
    intro r _
    simp only [Function.comp, modifyAt_getElem?, ↓reduceIte]
    rfl

/-- **`mdcev_count` stores, for every row, the number of the listed columns whose entry on that row
is non-zero** (a column listed twice counts twice), in a new last column — or in place when the
column exists — and touches nothing else: same labels, every other cell unchanged.  An unknown name
in the list ⇒ KeyError and nothing changes. -/
theorem mdcev_count_values [NumOps α] (t : Table α) (js : List Nat) (name : String)
    (hw : ∀ r ∈ t.rows, r.2.length = t.cols.length) :
    (colIdx t.cols name = none →
      (t.mdcevCount js name).cols = t.cols ++ [name] ∧ (t.mdcevCount js name).labels = t.labels ∧
      (t.mdcevCount js name).column t.cols.length = t.rows.map (fun r => Num.nat (nonZeroCount js r.2)) ∧
      ∀ j, j < t.cols.length → (t.mdcevCount js name).column j = t.column j) ∧
    (∀ k, colIdx t.cols name = some k →
      (t.mdcevCount js name).cols = t.cols ∧ (t.mdcevCount js name).labels = t.labels ∧
      (t.mdcevCount js name).column k = t.rows.map (fun r => Num.nat (nonZeroCount js r.2)) ∧
      ∀ j, j ≠ k → (t.mdcevCount js name).column j = t.column j) := by
  refine ⟨fun hn => mdcevCount_new t js name hn hw, fun k hk => ?_⟩
  obtain ⟨a, b, c, d, _⟩ := mdcevCount_existing t js name k hk hw
  exact ⟨a, b, c, d⟩

/-- the call on the object keeps the invariant of `history_inv_partial` at any point of a sequence
(same guard as for `scale_column`: the panel column is not overwritten); a refused call (unknown
name in the list) leaves the object as it was -/
theorem mdcev_count_inv_partial [NumOps α] (db : DB α) (names : List String) (name : String) (h : Inv db)
    (hg : db.panelCol ≠ some name) :
    Inv (okOr db (db.mdcevCount names name)) ∧
    (colIdxs db.t.cols names = none → okOr db (db.mdcevCount names name) = db) :=
  ⟨mdcevCount_inv db names name h hg, fun hn => by simp [DB.mdcevCount, hn, okOr]⟩

/-! ## folds -/

/-- **`numpy.array_split`**: the parts concatenated give the list back, there are `k` parts,
the first `n % k` parts have `n / k + 1` elements and the others `n / k`. -/
theorem array_split_concat {β} (l : List β) (k : Nat) (hk : 0 < k) :
    (arraySplit l k).flatten = l ∧ (arraySplit l k).length = k ∧
    (arraySplit l k).map List.length = splitSizes l.length k ∧ (splitSizes l.length k).sum = l.length :=
  ⟨arraySplit_flatten l k hk, arraySplit_length l k, arraySplit_sizes l k hk, splitSizes_sum _ k hk⟩

/-- **k-fold split without groups, for every shuffle**: whatever permutation `s` of the
rows the shuffle produced, there are `k` folds, the validation parts together contain every
row exactly once, each estimation part is the complement of its validation part, and (rows
being distinguishable) two validation parts share no row. -/
theorem folds_partition (rows s : List (Row α)) (k : Nat) (hk : 0 < k) (hs : s.Perm rows) :
    (splitRows s k).length = k ∧
    (((splitRows s k).map (·.2)).flatten).Perm rows ∧
    (∀ f ∈ splitRows s k, (f.1 ++ f.2).Perm rows) ∧
    (rows.Nodup → ((splitRows s k).map (·.2)).Pairwise fun a b => ∀ x ∈ a, ∀ y ∈ b, x ≠ y) := by
  unfold splitRows
  refine ⟨by rw [foldsOf_length, arraySplit_length], ?_, ?_, ?_⟩
  · rw [foldsOf_validation, arraySplit_flatten s k hk]; exact hs
  · intro f hf
    have := foldsOf_complement _ f hf
    rw [arraySplit_flatten s k hk] at this
    exact this.trans hs
  · intro hnd
    rw [foldsOf_validation]
    have hsn : s.Nodup := (List.Perm.nodup_iff hs).mpr hnd
    rw [← arraySplit_flatten s k hk] at hsn
    exact (List.pairwise_flatten.mp hsn).2

/-- **k-fold split with groups, for every shuffle of the group ids**: every row is in exactly
one validation part, each estimation part is the complement, and rows of one group are never
separated. -/
theorem groups_unsplit [NumOps α] (heq : EqOK α) (rows : List (Row α)) (j : Nat) (sids : List α) (k : Nat)
    (hk : 0 < k) (hs : sids.Perm (dedup (rows.map fun r => cellD r.2 j))) :
    (splitGroups rows j sids k).length = k ∧
    (((splitGroups rows j sids k).map (·.2)).flatten).Perm rows ∧
    (∀ f ∈ splitGroups rows j sids k, (f.1 ++ f.2).Perm rows) ∧
    (∀ f ∈ splitGroups rows j sids k, ∀ r ∈ rows, ∀ r' ∈ rows,
        cellD r.2 j = cellD r'.2 j → (r ∈ f.2 ↔ r' ∈ f.2)) := by
  have hval := splitGroups_validation_perm heq rows j sids k hk hs
  refine ⟨?_, hval, ?_, ?_⟩
  · unfold splitGroups; rw [foldsOf_length, List.length_map, arraySplit_length]
  · intro f hf
    unfold splitGroups at hf hval
    have := foldsOf_complement _ f hf
    rw [foldsOf_validation] at hval
    exact this.trans hval
  · intro f hf r hr r' hr' hid
    unfold splitGroups at hf
    have hmem : f.2 ∈ (foldsOf ((arraySplit sids k).map fun ids => rows.filter fun r => memB (cellD r.2 j) ids)).map (·.2) :=
      List.mem_map_of_mem hf
    rw [foldsOf_validation] at hmem
    obtain ⟨ids, _, hids⟩ := List.mem_map.mp hmem
    rw [← hids]
    simp only [List.mem_filter, hr, hr', true_and, hid]

/-! ## relations evaluated on real outputs -/

/-- what `isFoldPartition = true` (computed by the driver on the labels of the real folds)
means -/
theorem fold_relation_sound (all : List Int) (k : Nat) (folds : List (List Int × List Int))
    (h : isFoldPartition all k folds = true) :
    folds.length = k ∧ ((folds.map (·.2)).flatten).Perm all ∧ ∀ f ∈ folds, (f.1 ++ f.2).Perm all := by
  simp only [isFoldPartition, Bool.and_eq_true, beq_iff_eq, List.all_eq_true] at h
  exact ⟨h.1.1, List.isPerm_iff.mp h.1.2, fun f hf => List.isPerm_iff.mp (h.2 f hf)⟩

/-- what `groupsUnsplit = true` (computed on the real folds, labels with their group id) means -/
theorem groups_relation_sound [NumOps α] (heq : EqOK α) (all : List (Int × α)) (folds : List (List Int × List Int))
    (h : groupsUnsplit all folds = true) :
    ∀ f ∈ folds, ∀ p ∈ all, p.1 ∈ f.2 → ∀ q ∈ all, p.2 = q.2 → q.1 ∈ f.2 := by
  intro f hf p hp hin q hq hg
  simp only [groupsUnsplit, List.all_eq_true, Bool.or_eq_true, Bool.not_eq_true'] at h
  have h1 := h f hf p hp
  rcases h1 with h1 | h1
  · have : f.2.contains p.1 = true := List.contains_iff_mem.mpr hin
    rw [h1] at this; cases this
  · have h2 := h1 q hq
    rcases h2 with h2 | h2
    · have : Num.eq p.2 q.2 = true := (heq _ _).mpr hg
      rw [h2] at this; cases this
    · exact List.contains_iff_mem.mp h2

/-- what `isBootstrapOf = true` (computed on a real sample) means: every sampled row has the
label and, cell by cell, the values of a row of the table -/
theorem bootstrap_relation_sound [NumOps α] (heq : EqOK α) (rows sample : List (Row α))
    (h : isBootstrapOf rows sample = true) :
    ∀ s ∈ sample, ∃ r ∈ rows, r.1 = s.1 ∧ r.2.length = s.2.length ∧
      ∀ p ∈ r.2.zip s.2, p.1 = p.2 := by
  intro s hs
  simp only [isBootstrapOf, List.all_eq_true, List.any_eq_true, Bool.and_eq_true, beq_iff_eq] at h
  obtain ⟨r, hr, ⟨h1, h2⟩, h3⟩ := h s hs
  exact ⟨r, hr, h1, h2, fun p hp => (heq _ _).mp (h3 p hp)⟩

/-! ## bootstrap, extraction, counting -/

/-- **Bootstrap samples contain only existing rows** (any drawn positions). -/
theorem bootstrap_subset (rows : List (Row α)) (positions : List Nat) :
    ∀ s ∈ positions.filterMap (fun i => rows[i]?), s ∈ rows := by
  intro s hs
  obtain ⟨i, _, hi⟩ := List.mem_filterMap.mp hs
  exact List.mem_of_getElem? hi

/-- **`extract_rows` is positional** (whatever the labels): all positions inside 0..n-1 ⇒ the
rows at those positions, in the order asked; any position outside ⇒ IndexError. -/
theorem extract_positional (db : DB α) (pos : List Int) :
    ((∀ i ∈ pos, 0 ≤ i ∧ i < db.t.rows.length) →
      ∃ out, db.extract pos = .ok out ∧ out.length = pos.length ∧
        ∀ (n : Nat) (hn : n < pos.length), out[n]? = db.t.rows[(pos[n]).toNat]?) ∧
    ((∃ i ∈ pos, i < 0 ∨ i ≥ db.t.rows.length) → db.extract pos = .error .indexError) :=
  ⟨extract_ok db pos, extract_err db pos⟩

theorem count_def [NumOps α] (db : DB α) (c : String) (v : α) (j : Nat) (hj : colIdx db.t.cols c = some j) :
    db.count c v = .ok ((db.t.rows.filter fun r => Num.eq (cellD r.2 j) v).length) := by
  simp [DB.count, hj, Table.column, List.countP_eq_length_filter, List.filter_map, Function.comp_def]

/-- **`count` is exact**: it returns the number of rows that HOLD the value — rows holding
another value, however close, are not counted: a value held by no row is counted 0 times, a
value held by some row at least once, and over the distinct values of the column the counts
add up to the number of rows (no row is counted for two values). -/
theorem count_exact [NumOps α] (heq : EqOK α) (db : DB α) (c : String) (j : Nat)
    (hj : colIdx db.t.cols c = some j) :
    (∀ v, db.count c v = .ok ((db.t.rows.filter fun r => Num.eq (cellD r.2 j) v).length) ∧
        ∀ r, r ∈ (db.t.rows.filter fun r => Num.eq (cellD r.2 j) v) ↔ r ∈ db.t.rows ∧ cellD r.2 j = v) ∧
    (∀ v, v ∉ db.t.column j ↔ db.count c v = .ok 0) ∧
    (((dedup (db.t.column j)).map fun v => (db.t.column j).countP fun x => Num.eq x v).sum = db.t.rows.length) := by
  refine ⟨?_, ?_, ?_⟩
  · intro v
    refine ⟨count_def db c v j hj, fun r => ?_⟩
    rw [List.mem_filter, heq]
  · intro v
    simp only [DB.count, hj]
    rw [← countP_eq_zero_iff_absent heq]
    constructor
    · intro h; rw [h]
    · intro h; exact Except.ok.inj h
  · rw [counts_partition heq]; simp [Table.column]

/-- the counts the driver returns for a list of values (`counts` request): one `count` each -/
theorem counts_def [NumOps α] (db : DB α) (c : String) (vs : List α) (j : Nat) (hj : colIdx db.t.cols c = some j) :
    db.counts c vs = .ok (vs.map fun v => (db.t.rows.filter fun r => Num.eq (cellD r.2 j) v).length) := by
  simp [DB.counts, hj, Table.column, List.countP_eq_length_filter, List.filter_map, Function.comp_def]

/-! ## flattening -/

/-- **Flattening a panel loses and invents nothing**: the groups are the individuals in
order of first appearance; group `i` consists of the rows of individual `i` in table order
(so observation `j` of the flat row is the `j`-th row of that individual), and all groups
together contain every row exactly once. -/
theorem flatten_roundtrip [NumOps α] (heq : EqOK α) (rows : List (Row α)) (j : Nat) :
    (((groupsBy rows j).map (·.2)).flatten).Perm rows ∧
    (∀ g ∈ groupsBy rows j, g.2 = rows.filter (fun r => Num.eq (cellD r.2 j) g.1) ∧
        g.2.Sublist rows ∧ ∀ r ∈ g.2, cellD r.2 j = g.1) ∧
    ((groupsBy rows j).map (·.1)).Nodup := by
  refine ⟨groupsBy_perm heq rows j, ?_, ?_⟩
  · intro g hg
    unfold groupsBy at hg
    obtain ⟨i, _, rfl⟩ := List.mem_map.mp hg
    refine ⟨rfl, List.filter_sublist, ?_⟩
    intro r hr
    simp only [List.mem_filter] at hr
    exact (heq _ _).mp hr.2
  · unfold groupsBy
    rw [List.map_map]
    have : ((fun x : α × List (Row α) => x.1) ∘ fun i => (i, rows.filter fun r => Num.eq (cellD r.2 j) i)) = id := rfl
    rw [this, List.map_id]
    exact nodup_dedup heq _


/-! ## the helpers of `tools/database.py` called directly (any row order, defaults and options) -/

/-- **The automatic detection of the identical columns (`identical_columns=None`) is exact wherever
the rows of an individual are in the table**: a column is kept once iff any two rows with the same
id — consecutive or not — agree on it. -/
theorem auto_identical_exact [NumOps α] (heq : EqOK α) (t : Table α) (j c : Nat) :
    c ∈ identicalCols t j ↔ c < t.cols.length ∧
      ∀ r ∈ t.rows, ∀ r' ∈ t.rows, cellD r.2 j = cellD r'.2 j → cellD r.2 c = cellD r'.2 c :=
  identicalCols_iff heq t j c

/-- **`flatten_database(df, merge_id)` with every optional argument at its default loses and invents
nothing, for ANY order of the rows and any labels**: one flat row per individual (order of first
appearance); every cell of every row can be read back — either under the name of its column (kept
once) or as `<k>_<column>` where the row is the `k`-th row of its individual in table order — and
every cell of the flat table is a cell of a row of that individual. -/
theorem flatten_direct_reads_back [NumOps α] (heq : EqOK α) (t : Table α) (mergeId : String) (j : Nat)
    (hj : colIdx t.cols mergeId = some j) :
    ∃ out, flattenDirect t mergeId none none = .ok out ∧
      out.map (·.1) = dedup (t.column j) ∧
      (∀ r ∈ t.rows, ∀ c, c < t.cols.length → c ≠ j →
        ∃ g ∈ out, g.1 = cellD r.2 j ∧
          ((CellName.common (t.cols.getD c ""), cellD r.2 c) ∈ g.2 ∨
           ∃ o, (t.rows.filter fun r' => Num.eq (cellD r'.2 j) (cellD r.2 j))[o]? = some r ∧
             (CellName.obs (.pos (o + 1)) (t.cols.getD c ""), cellD r.2 c) ∈ g.2)) ∧
      (∀ g ∈ out, ∀ n v, (n, v) ∈ g.2 →
        ∃ r ∈ t.rows, cellD r.2 j = g.1 ∧ ∃ c, c ≠ j ∧ v = cellD r.2 c ∧
          (n = CellName.common (t.cols.getD c "") ∨ ∃ k, n = CellName.obs k (t.cols.getD c ""))) := by
  refine ⟨(groupsBy t.rows j).map (flatRow t.cols j (identicalCols t j) none), ?_, ?_, ?_, ?_⟩
  · simp [flattenDirect, hj]
  · simp [groupsBy, flatRow, List.map_map, Function.comp_def, Table.column]
  · intro r hr c hc hcj
    have hg0 : (cellD r.2 j, t.rows.filter fun x => Num.eq (cellD x.2 j) (cellD r.2 j)) ∈ groupsBy t.rows j :=
      (mem_groupsBy heq _ _ _).mpr ⟨⟨r, hr, rfl⟩, rfl⟩
    have hrg : r ∈ t.rows.filter fun x => Num.eq (cellD x.2 j) (cellD r.2 j) :=
      (mem_group_rows heq _ _ _ _).mpr ⟨hr, rfl⟩
    obtain ⟨o, ho⟩ := List.mem_iff_getElem?.mp hrg
    refine ⟨_, List.mem_map_of_mem hg0, rfl, ?_⟩
    have hreads := flatRow_reads t.cols j (identicalCols t j) none
      (cellD r.2 j, t.rows.filter fun x => Num.eq (cellD x.2 j) (cellD r.2 j)) o r ho c hcj
    by_cases hid : c ∈ identicalCols t j
    · left
      obtain ⟨first, hf⟩ : ∃ first, (t.rows.filter fun x => Num.eq (cellD x.2 j) (cellD r.2 j))[0]? = some first := by
        cases hl : (t.rows.filter fun x => Num.eq (cellD x.2 j) (cellD r.2 j)) with
        | nil => rw [hl] at hrg; cases hrg
        | cons a rest => exact ⟨a, rfl⟩
      have hmem := hreads.2.1 hid first hf
      have hfm := (mem_group_rows heq _ _ _ _).mp (List.mem_of_getElem? hf)
      have := ((identicalCols_iff heq t j c).mp hid).2 first hfm.1 r hr hfm.2
      rw [← this]; exact hmem
    · right
      exact ⟨o, ho, hreads.2.2 hc hid (by simp)⟩
  · intro g hg n v hnv
    obtain ⟨g0, hg0, rfl⟩ := List.mem_map.mp hg
    obtain ⟨⟨r0, hr0, hid0⟩, h2⟩ := (mem_groupsBy heq _ _ _).mp hg0
    have hr0g : r0 ∈ g0.2 := by rw [h2]; exact (mem_group_rows heq _ _ _ _).mpr ⟨hr0, hid0⟩
    obtain ⟨first, hf⟩ : ∃ first, g0.2[0]? = some first := by
      cases hl : g0.2 with
      | nil => rw [hl] at hr0g; cases hr0g
      | cons a rest => exact ⟨a, rfl⟩
    obtain ⟨r, hr, c, hcj, hv, hn⟩ := flatRow_sound t.cols j (identicalCols t j) none g0 first hf n v hnv
    rw [h2] at hr
    obtain ⟨hr1, hr2⟩ := (mem_group_rows heq _ _ _ _).mp hr
    refine ⟨r, hr1, hr2, c, hcj, hv, ?_⟩
    rcases hn with ⟨_, hn, _⟩ | ⟨_, k, hn⟩
    · exact Or.inl hn
    · exact Or.inr ⟨k, hn⟩

/-- **With options** (`row_name`, `identical_columns` given): whenever the call succeeds, the flat
table is one `flatRow` per individual; without `identical_columns` the identical columns are the
detected ones (exact by `auto_identical_exact`); with `row_name` the entries naming the observations
are pairwise different inside every individual (no cell overwrites another); in every flat row a
column declared/detected identical holds the value of the individual's FIRST row and every other
column of the `o`-th row is stored under the key of that row (`flatRow_reads`). -/
theorem flatten_direct_ok_shape [NumOps α] (heq : EqOK α) (t : Table α) (mergeId : String)
    (rowName : Option String) (identical : Option (List String)) (out : List (α × List (CellName α × α)))
    (h : flattenDirect t mergeId rowName identical = .ok out) :
    ∃ j ident jr, colIdx t.cols mergeId = some j ∧
      out = (groupsBy t.rows j).map (flatRow t.cols j ident jr) ∧
      (identical = none → ident = identicalCols t j) ∧
      (rowName = none → jr = none) ∧
      (∀ rn, rowName = some rn → ∃ q, colIdx t.cols rn = some q ∧ jr = some q ∧ (q = j ∨ q ∉ ident) ∧
        ∀ g ∈ groupsBy t.rows j, (g.2.map fun r => cellD r.2 q).Nodup) ∧
      (∀ g ∈ groupsBy t.rows j, ∀ o r, g.2[o]? = some r → ∀ c, c < t.cols.length → c ≠ j →
        (c ∈ ident → ∀ first, g.2[0]? = some first →
          (CellName.common (t.cols.getD c ""), cellD first.2 c) ∈ (flatRow t.cols j ident jr g).2) ∧
        (c ∉ ident → some c ≠ jr →
          (CellName.obs (obsKey jr o r) (t.cols.getD c ""), cellD r.2 c) ∈ (flatRow t.cols j ident jr g).2)) := by
  unfold flattenDirect at h
  split at h
  · cases h
  · rename_i j hj
    have reads : ∀ ident jr, ∀ g ∈ groupsBy t.rows j, ∀ o r, g.2[o]? = some r → ∀ c, c < t.cols.length → c ≠ j →
        (c ∈ ident → ∀ first, g.2[0]? = some first →
          (CellName.common (t.cols.getD c ""), cellD first.2 c) ∈ (flatRow t.cols j ident jr g).2) ∧
        (c ∉ ident → some c ≠ jr →
          (CellName.obs (obsKey jr o r) (t.cols.getD c ""), cellD r.2 c) ∈ (flatRow t.cols j ident jr g).2) := by
      intro ident jr g _ o r ho c hc hcj
      have := flatRow_reads t.cols j ident jr g o r ho c hcj
      exact ⟨this.2.1, this.2.2 hc⟩
    simp only at h
    split at h
    · cases h
    · rename_i ident hident
      have hauto : identical = none → ident = identicalCols t j := by
        intro hn
        subst hn
        simp only at hident
        exact (Except.ok.inj hident).symm
      split at h
      · refine ⟨j, ident, none, hj, (Except.ok.inj h).symm, hauto, fun _ => rfl, fun rn hrn => (by cases hrn), reads ident none⟩
      · rename_i rn
        split at h
        · cases h
        · rename_i q hq
          split at h
          · cases h
          · rename_i hnk
            split at h
            · cases h
            · rename_i hd
              refine ⟨j, ident, some q, hj, (Except.ok.inj h).symm, hauto, fun hn => (by cases hn), ?_, reads ident (some q)⟩
              intro rn' hrn'
              cases hrn'
              refine ⟨q, hq, rfl, ?_, ?_⟩
              · have hnk' : ¬ q = j → q ∈ varyingCols t.cols.length j ident := by simpa using hnk
                by_cases hqj : q = j
                · exact Or.inl hqj
                · exact Or.inr ((mem_varyingCols _ _ _ _).mp (hnk' hqj)).2.1
              · intro g hg
                have hall : (groupsBy t.rows j).all (fun g => allDistinct (g.2.map fun r => cellD r.2 q)) = true := by
                  simpa using hd
                exact (allDistinct_iff heq _).mp (List.all_eq_true.mp hall g hg)

/-- **Refused calls**: an unknown `merge_id` ⇒ KeyError; with the defaults for `identical_columns`, a
`row_name` column (the id column or a column that varies) holding the same entry twice inside one
individual ⇒ BiogemeError (no observation silently overwrites another). -/
theorem flatten_direct_refusals [NumOps α] (heq : EqOK α) (t : Table α) (mergeId : String)
    (rowName : Option String) (identical : Option (List String)) :
    (colIdx t.cols mergeId = none → flattenDirect t mergeId rowName identical = .error .keyError) ∧
    (∀ j rn q, colIdx t.cols mergeId = some j → colIdx t.cols rn = some q →
      (q = j ∨ (q < t.cols.length ∧ q ∉ identicalCols t j)) →
      (∃ g ∈ groupsBy t.rows j, ¬ (g.2.map fun r => cellD r.2 q).Nodup) →
      flattenDirect t mergeId (some rn) none = .error .biogeme) := by
  refine ⟨fun h => by simp [flattenDirect, h], ?_⟩
  intro j rn q hj hq hqv ⟨g, hg, hnd⟩
  have h1 : (q == j || (varyingCols t.cols.length j (identicalCols t j)).contains q) = true := by
    rcases hqv with h | ⟨h1, h2⟩
    · simp [h]
    · by_cases hqj : q = j
      · simp [hqj]
      · have := (mem_varyingCols t.cols.length j (identicalCols t j) q).mpr ⟨h1, h2, hqj⟩
        simp [this]
  have h2 : ((groupsBy t.rows j).all fun g => allDistinct (g.2.map fun r => cellD r.2 q)) = false := by
    rw [List.all_eq_false]
    refine ⟨g, hg, ?_⟩
    intro hd
    exact hnd ((allDistinct_iff heq _).mp hd)
  simp only [flattenDirect, hj, hq, h1, h2]
  rfl

/-- **`mdcev_row_split` is positional** (whatever the labels): without a range every row, in table
order, as a table of its own; with a range the rows at those positions (as `extract_rows`);
a position outside 0..n-1 ⇒ IndexError. -/
theorem row_split_positional (db : DB α) :
    db.rowSplit none = .ok (db.t.rows.map fun r => [r]) ∧
    (∀ pos, db.rowSplit (some pos) = (db.extract pos).map (List.map fun r => [r])) ∧
    (∀ pos : List Int, (∃ i ∈ pos, i < 0 ∨ i ≥ (db.t.rows.length : Int)) → db.rowSplit (some pos) = .error .indexError) :=
  ⟨rowSplit_all db, rowSplit_eq_extract db, rowSplit_err db⟩

/-- **`get_number_of_observations` / `get_sample_size`**: the rows of the table; in panel mode the
entries of the individual map (which, by the invariant of `history_inv_partial`, is the map of the
runs of the current id column). -/
theorem sample_size_def (db : DB α) :
    db.nObs = db.t.rows.length ∧ (db.panelCol = none → db.sampleSize = db.t.rows.length) ∧
    (∀ c, db.panelCol = some c → db.sampleSize = db.map.length) := by
  refine ⟨rfl, fun h => by simp [DB.sampleSize, h], fun c h => by simp [DB.sampleSize, h]⟩

/-! ## operation sequences -/

/-- **Invariant over arbitrary sequences of remove / add_column / define_variable /
scale_column / panel** (calls that raise leave the object unchanged): every row keeps one
value per column; in panel mode the panel column exists, the rows are numbered 0..n-1 and
the individual map is the map of the runs of the current id column.
Guard (hence `_partial`): no `scale_column` targets a column used as panel column — the map
is keyed by the ids, which such a scaling changes (see `scale_panel_column_breaks_map`). -/
theorem history_inv_partial [NumOps α] (db : DB α) (ops : List (Op α)) (h : Inv db)
    (hg : ∀ c ∈ scaleTargets ops, c ∉ panelCandidates db ops) : Inv (db.run ops) :=
  run_inv ops db h hg

/-- a fresh `Database` object satisfies the invariant when its rows are well formed -/
theorem fresh_inv [NumOps α] (t : Table α) (hw : ∀ r ∈ t.rows, r.2.length = t.cols.length) :
    Inv (⟨t, 0, none, []⟩ : DB α) :=
  ⟨hw, fun c h => by cases h⟩

/-! ## witnesses and non-vacuity (on the integers) -/

/-- numbers = integers, for the examples -/
@[instance_reducible] def intOps : NumOps Int where
  add := (· + ·)
  sub := (· - ·)
  mul := (· * ·)
  div := (· / ·)
  neg := fun x => -x
  exp := id
  log := id
  sin := id
  cos := id
  sqrt := id
  pow := fun x _ => x
  abs := fun x => x.natAbs
  ofNat := fun n => n
  ofScientific := fun m _ _ => m
  lt := fun a b => decide (a < b)
  le := fun a b => decide (a ≤ b)
  eq := fun a b => decide (a = b)
  normalCdf := id

attribute [local instance] intOps

theorem intEqOK : EqOK Int := fun a b => by
  show decide (a = b) = true ↔ a = b
  simp

/-- **With duplicate labels the code as it is deletes too much** (known finding): the rows
carry the labels 0,1,0,1 (`pd.concat` of two frames) and x = 1,2,2,1; removing `x == 2`
should keep the first and the last row; dropping by label keeps nothing. -/
theorem remove_by_label_duplicates :
    let rows : List (Row Int) := [(0, [1]), (1, [2]), (0, [2]), (1, [1])]
    let mask := dropMask ((⟨["x"], rows⟩ : Table Int).eval (.eq (.var "x") (.num 2)))
    keepPositional rows mask = [(0, [1]), (1, [1])] ∧ keepByLabel rows mask = [] := by
  decide

/-- the guard of `history_inv_partial` is needed: scaling the id column of a panel by 0 leaves
a map that is no longer the map of the id column -/
theorem scale_panel_column_breaks_map :
    let db : DB Int := ⟨⟨["id"], [(0, [1]), (1, [2])]⟩, 0, some "id", [(1, 0, 0), (2, 1, 1)]⟩
    (db.map = runMap (db.t.column 0) 0) ∧
    ((okOr db (db.scale "id" 0)).map ≠ runMap ((okOr db (db.scale "id" 0)).t.column 0) 0) := by
  decide

example : splitSizes 10 4 = [3, 3, 2, 2] ∧ arraySplit [1, 2, 3, 4, 5, 6, 7] 3 = [[1, 2, 3], [4, 5], [6, 7]] ∧
    arraySplit [1, 2] 4 = [[1], [2], [], []] := by decide

example : (foldsOf [[1, 2], [3], [4, 5]]) = [([3, 4, 5], [1, 2]), ([1, 2, 4, 5], [3]), ([1, 2, 3], [4, 5])] := by
  decide

/-- a table with gaps in the labels: remove, then add a column -/
example :
    let t : Table Int := ⟨["id", "x"], [(0, [1, 4]), (2, [1, 5]), (5, [2, 6]), (9, [3, 7])]⟩
    keepPositional t.rows (dropMask (t.eval (.gt (.var "x") (.num 5)))) = [(0, [1, 4]), (2, [1, 5])] ∧
    (t.addCol "z" (.mul (.var "x") (.num 2))).rows = [(0, [1, 4, 8]), (2, [1, 5, 10]), (5, [2, 6, 12]), (9, [3, 7, 14])] := by
  decide

/-- identifiers that differ by one unit, after a removal left gaps in the labels: each is counted
for itself only; an absent neighbour is counted 0 times -/
example :
    let db : DB Int := ⟨⟨["hh", "x"], [(0, [4210017, 1]), (3, [4210018, 2]), (4, [4210017, 3]), (9, [4210019, 4])]⟩, 2, none, []⟩
    (db.count "hh" 4210017).toOption = some 2 ∧ (db.count "hh" 4210018).toOption = some 1 ∧
    (db.count "hh" 4210020).toOption = some 0 ∧
    (db.counts "hh" [4210017, 4210018, 4210019, 4210016]).toOption = some [2, 1, 1, 0] ∧
    (db.count "nope" 1).toOption = none := by
  decide

example : isFoldPartition [0, 2, 5, 9] 2 [([5, 9], [2, 0]), ([2, 0], [5, 9])] = true ∧
    isFoldPartition [0, 2, 5, 9] 2 [([5, 9], [2, 0]), ([2, 0], [5])] = false := by decide

example : groupsBy ([(0, [2, 7]), (1, [1, 8]), (2, [2, 9])] : List (Row Int)) 0 =
    [(2, [(0, [2, 7]), (2, [2, 9])]), (1, [(1, [1, 8])])] := by decide

/-- a panel file stored wave by wave (ids 1,2,3,1,2,3) with labels that are not positions: `age` is
detected identical, `cost` and `w` vary although no two rows of one individual are adjacent -/
example :
    let t : Table Int := ⟨["id", "age", "cost", "w"],
      [(5, [1, 20, 7, 1]), (3, [2, 30, 8, 1]), (9, [3, 40, 9, 1]), (5, [1, 20, 4, 2]), (0, [2, 30, 5, 2]), (1, [3, 40, 6, 2])]⟩
    identicalCols t 0 = [0, 1] ∧
    (flattenDirect t "id" none none).toOption.map (fun o => o.map fun g => (g.1, g.2.map (·.2))) =
      some [(1, [20, 7, 1, 4, 2]), (2, [30, 8, 1, 5, 2]), (3, [40, 9, 1, 6, 2])] ∧
    (flattenDirect t "id" (some "w") none).toOption.map (fun o => o.map fun g => (g.1, g.2.map (·.2))) =
      some [(1, [20, 7, 4]), (2, [30, 8, 5]), (3, [40, 9, 6])] ∧
    (flattenDirect t "id" none (some [])).toOption.map (fun o => o.map fun g => g.2.length) = some [6, 6, 6] ∧
    (flattenDirect t "id" (some "age") none).toOption = none ∧
    (flattenDirect t "nope" none none).toOption = none ∧
    (flattenDirect t "id" none (some ["zz"])).toOption = none := by
  decide

/-- one late row (ids 1,1,2,2,1) whose `zone` differs only there: `zone` varies -/
example :
    let t : Table Int := ⟨["id", "zone"], [(0, [1, 4]), (1, [1, 4]), (2, [2, 5]), (3, [2, 5]), (4, [1, 6])]⟩
    identicalCols t 0 = [0] ∧
    (flattenDirect t "id" none none).toOption.map (fun o => o.map fun g => (g.1, g.2.map (·.2))) =
      some [(1, [4, 4, 6]), (2, [5, 5])] ∧
    (match flattenDirect t "id" (some "zone") none with | .error .biogeme => true | _ => false) = true ∧
    (match flattenDirect t "nope" (some "zone") none with | .error .keyError => true | _ => false) = true := by
  decide

example :
    let db : DB Int := ⟨⟨["x"], [(7, [1]), (2, [5]), (4, [9])]⟩, 0, none, []⟩
    (db.rowSplit none).toOption = some [[(7, [1])], [(2, [5])], [(4, [9])]] ∧
    (db.rowSplit (some [2, 0])).toOption = some [[(4, [9])], [(7, [1])]] ∧
    (db.rowSplit (some [3])).toOption = none ∧ db.sampleSize = 3 := by
  decide

/-- quantities with a negative and a zero entry, labels with gaps: new column, then overwritten in place -/
example :
    let t : Table Int := ⟨["a", "b", "c"], [(4, [0, 0, 1]), (2, [3, 0, 0]), (9, [-2, 3, 0])]⟩
    (t.mdcevCount [0, 1] "n").rows = [(4, [0, 0, 1, 0]), (2, [3, 0, 0, 1]), (9, [-2, 3, 0, 2])] ∧
    (t.mdcevCount [0, 0, 2] "b").rows = [(4, [0, 1, 1]), (2, [3, 2, 0]), (9, [-2, 2, 0])] ∧
    ((⟨t, 0, none, []⟩ : DB Int).mdcevCount ["a", "zz"] "n").toOption.isNone = true := by
  decide

end C13
