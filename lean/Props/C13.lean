/-
C13 — data-set transformations keep rows and values intact.
Property theorems only (helper lemmas in Proofs/Table.lean).
-/
import Model.Table
import Proofs.Table

namespace C13

open Tbl

variable {α : Type}

/-- the comparison `==` of the number type decides equality (true of Python/numpy numbers
other than NaN; the `Database` constructor refuses NaN) -/
def EqOK (α : Type) [NumOps α] : Prop := ∀ a b : α, Num.eq a b = true ↔ a = b

/-! ## remove -/

/-- **`remove` deletes exactly the rows whose condition is non-zero and reports their
number** (any label index — gaps, any order): the rows kept are, in order, those on which
the condition evaluates to zero; `excludedData` is the number of the others; nothing else
changes. -/
theorem remove_exact [NumOps α] (rows : List (Row α)) (vals : List α) (h : vals.length = rows.length) :
    keepPositional rows (dropMask vals) = ((rows.zip vals).filter fun p => !nz p.2).map (·.1) ∧
    countTrue (dropMask vals) = vals.countP nz ∧
    (keepPositional rows (dropMask vals)).length + countTrue (dropMask vals) = rows.length := by
  have hm : (dropMask vals).length = rows.length := by simp [dropMask, h]
  refine ⟨?_, ?_, keepPositional_length rows _ hm⟩
  · rw [keepPositional_eq rows _ hm]
    simp only [dropMask, List.zip_map_right, List.filter_map, List.map_map]
    rfl
  · simp [countTrue, dropMask, List.countP_map]

/-- the call on the object: refused on an empty table, otherwise as above (without panel) -/
theorem remove_call [NumOps α] (db : DB α) (f : Fm α) (hne : db.t.rows.isEmpty = false)
    (hv : varsKnown db.t.cols f = true) (hp : db.panelCol = none) :
    db.remove f = .ok { db with
      t := { db.t with rows := keepPositional db.t.rows (dropMask (db.t.eval f)) },
      excluded := countTrue (dropMask (db.t.eval f)) } := by
  simp [DB.remove, hne, hv, DB.rebuild, hp]

/-- **The code drops by label; with pairwise different labels that is the same thing.** -/
theorem remove_by_label_ok (rows : List (Row α)) (m : List Bool) (h : m.length = rows.length)
    (hnd : (rows.map (·.1)).Nodup) : keepByLabel rows m = keepPositional rows m :=
  keepByLabel_eq_positional rows m h hnd

/-! ## add column, scale -/

/-- **`add_column` / `define_variable` store, for every row, the value of the formula on that
row** and touch nothing else: same labels, every old cell unchanged, new last column. -/
theorem addcol_values [NumOps α] (t : Table α) (name : String) (f : Fm α)
    (hw : ∀ r ∈ t.rows, r.2.length = t.cols.length) :
    (t.addCol name f).cols = t.cols ++ [name] ∧
    (t.addCol name f).labels = t.labels ∧
    (t.addCol name f).column t.cols.length = t.eval f ∧
    ∀ j, j < t.cols.length → (t.addCol name f).column j = t.column j := by
  refine ⟨rfl, by simp [Table.addCol, Table.labels, List.map_map, Function.comp_def], ?_, ?_⟩
  · simp only [Table.column, Table.addCol, List.map_map, Table.eval]
    apply List.map_congr_left
    intro r hr
    simp only [Function.comp, cellD]
    rw [List.getD_eq_getElem?_getD, ← hw r hr]
    simp
  · intro j hj
    simp only [Table.column, Table.addCol, List.map_map]
    apply List.map_congr_left
    intro r hr
    exact cellD_append r.2 _ j (by rw [hw r hr]; exact hj)

/-- **`scale_column` multiplies exactly one column.** -/
theorem scale_one_column [NumOps α] (t : Table α) (j : Nat) (s : α) :
    (t.scaleCol j s).cols = t.cols ∧ (t.scaleCol j s).labels = t.labels ∧
    (∀ i, i ≠ j → (t.scaleCol j s).column i = t.column i) ∧
    (t.scaleCol j s).rows.map (fun r => r.2[j]?) = t.rows.map (fun r => r.2[j]?.map (NumOps.mul · s)) := by
  refine ⟨rfl, by simp [Table.scaleCol, Table.labels, List.map_map, Function.comp_def], ?_, ?_⟩
  · intro i hi
    simp only [Table.column, Table.scaleCol, List.map_map]
    apply List.map_congr_left
    intro r _
    exact cellD_modifyAt_ne _ r.2 i j hi
  · simp only [Table.scaleCol, List.map_map]
    apply List.map_congr_left
    intro r _
    simp only [Function.comp, modifyAt_getElem?, ↓reduceIte]
    rfl

/-! ## folds -/

/-- **`numpy.array_split`**: the parts concatenated give the list back, there are `k` parts,
the first `n % k` parts have `n / k + 1` elements and the others `n / k`. -/
theorem array_split_concat {β} (l : List β) (k : Nat) (hk : 0 < k) :
    (arraySplit l k).flatten = l ∧ (arraySplit l k).length = k ∧
    (arraySplit l k).map List.length = splitSizes l.length k ∧ (splitSizes l.length k).sum = l.length :=
  ⟨arraySplit_flatten l k hk, arraySplit_length l k, arraySplit_sizes l k hk, splitSizes_sum _ k hk⟩

/-- **k-fold split without groups, for every shuffle**: whatever permutation `s` of the
rows the shuffle produced, there are `k` folds, the validation parts together contain every
row exactly once, each estimation part is the complement of its validation part, and (rows
being distinguishable) two validation parts share no row. -/
theorem folds_partition (rows s : List (Row α)) (k : Nat) (hk : 0 < k) (hs : s.Perm rows) :
    (splitRows s k).length = k ∧
    (((splitRows s k).map (·.2)).flatten).Perm rows ∧
    (∀ f ∈ splitRows s k, (f.1 ++ f.2).Perm rows) ∧
    (rows.Nodup → ((splitRows s k).map (·.2)).Pairwise fun a b => ∀ x ∈ a, ∀ y ∈ b, x ≠ y) := by
  unfold splitRows
  refine ⟨by rw [foldsOf_length, arraySplit_length], ?_, ?_, ?_⟩
  · rw [foldsOf_validation, arraySplit_flatten s k hk]; exact hs
  · intro f hf
    have := foldsOf_complement _ f hf
    rw [arraySplit_flatten s k hk] at this
    exact this.trans hs
  · intro hnd
    rw [foldsOf_validation]
    have hsn : s.Nodup := (List.Perm.nodup_iff hs).mpr hnd
    rw [← arraySplit_flatten s k hk] at hsn
    exact (List.pairwise_flatten.mp hsn).2

/-- **k-fold split with groups, for every shuffle of the group ids**: every row is in exactly
one validation part, each estimation part is the complement, and rows of one group are never
separated. -/
theorem groups_unsplit [NumOps α] (heq : EqOK α) (rows : List (Row α)) (j : Nat) (sids : List α) (k : Nat)
    (hk : 0 < k) (hs : sids.Perm (dedup (rows.map fun r => cellD r.2 j))) :
    (splitGroups rows j sids k).length = k ∧
    (((splitGroups rows j sids k).map (·.2)).flatten).Perm rows ∧
    (∀ f ∈ splitGroups rows j sids k, (f.1 ++ f.2).Perm rows) ∧
    (∀ f ∈ splitGroups rows j sids k, ∀ r ∈ rows, ∀ r' ∈ rows,
        cellD r.2 j = cellD r'.2 j → (r ∈ f.2 ↔ r' ∈ f.2)) := by
  have hval := splitGroups_validation_perm heq rows j sids k hk hs
  refine ⟨?_, hval, ?_, ?_⟩
  · unfold splitGroups; rw [foldsOf_length, List.length_map, arraySplit_length]
  · intro f hf
    unfold splitGroups at hf hval
    have := foldsOf_complement _ f hf
    rw [foldsOf_validation] at hval
    exact this.trans hval
  · intro f hf r hr r' hr' hid
    unfold splitGroups at hf
    have hmem : f.2 ∈ (foldsOf ((arraySplit sids k).map fun ids => rows.filter fun r => memB (cellD r.2 j) ids)).map (·.2) :=
      List.mem_map_of_mem hf
    rw [foldsOf_validation] at hmem
    obtain ⟨ids, _, hids⟩ := List.mem_map.mp hmem
    rw [← hids]
    simp only [List.mem_filter, hr, hr', true_and, hid]

/-! ## relations evaluated on real outputs -/

/-- what `isFoldPartition = true` (computed by the driver on the labels of the real folds)
means -/
theorem fold_relation_sound (all : List Int) (k : Nat) (folds : List (List Int × List Int))
    (h : isFoldPartition all k folds = true) :
    folds.length = k ∧ ((folds.map (·.2)).flatten).Perm all ∧ ∀ f ∈ folds, (f.1 ++ f.2).Perm all := by
  simp only [isFoldPartition, Bool.and_eq_true, beq_iff_eq, List.all_eq_true] at h
  exact ⟨h.1.1, List.isPerm_iff.mp h.1.2, fun f hf => List.isPerm_iff.mp (h.2 f hf)⟩

/-- what `groupsUnsplit = true` (computed on the real folds, labels with their group id) means -/
theorem groups_relation_sound [NumOps α] (heq : EqOK α) (all : List (Int × α)) (folds : List (List Int × List Int))
    (h : groupsUnsplit all folds = true) :
    ∀ f ∈ folds, ∀ p ∈ all, p.1 ∈ f.2 → ∀ q ∈ all, p.2 = q.2 → q.1 ∈ f.2 := by
  intro f hf p hp hin q hq hg
  simp only [groupsUnsplit, List.all_eq_true, Bool.or_eq_true, Bool.not_eq_true'] at h
  have h1 := h f hf p hp
  rcases h1 with h1 | h1
  · have : f.2.contains p.1 = true := List.contains_iff_mem.mpr hin
    rw [h1] at this; cases this
  · have h2 := h1 q hq
    rcases h2 with h2 | h2
    · have : Num.eq p.2 q.2 = true := (heq _ _).mpr hg
      rw [h2] at this; cases this
    · exact List.contains_iff_mem.mp h2

/-- what `isBootstrapOf = true` (computed on a real sample) means: every sampled row has the
label and, cell by cell, the values of a row of the table -/
theorem bootstrap_relation_sound [NumOps α] (heq : EqOK α) (rows sample : List (Row α))
    (h : isBootstrapOf rows sample = true) :
    ∀ s ∈ sample, ∃ r ∈ rows, r.1 = s.1 ∧ r.2.length = s.2.length ∧
      ∀ p ∈ r.2.zip s.2, p.1 = p.2 := by
  intro s hs
  simp only [isBootstrapOf, List.all_eq_true, List.any_eq_true, Bool.and_eq_true, beq_iff_eq] at h
  obtain ⟨r, hr, ⟨h1, h2⟩, h3⟩ := h s hs
  exact ⟨r, hr, h1, h2, fun p hp => (heq _ _).mp (h3 p hp)⟩

/-! ## bootstrap, extraction, counting -/

/-- **Bootstrap samples contain only existing rows** (any drawn positions). -/
theorem bootstrap_subset (rows : List (Row α)) (positions : List Nat) :
    ∀ s ∈ positions.filterMap (fun i => rows[i]?), s ∈ rows := by
  intro s hs
  obtain ⟨i, _, hi⟩ := List.mem_filterMap.mp hs
  exact List.mem_of_getElem? hi

/-- **`extract_rows` is positional** (whatever the labels): all positions inside 0..n-1 ⇒ the
rows at those positions, in the order asked; any position outside ⇒ IndexError. -/
theorem extract_positional (db : DB α) (pos : List Int) :
    ((∀ i ∈ pos, 0 ≤ i ∧ i < db.t.rows.length) →
      ∃ out, db.extract pos = .ok out ∧ out.length = pos.length ∧
        ∀ (n : Nat) (hn : n < pos.length), out[n]? = db.t.rows[(pos[n]).toNat]?) ∧
    ((∃ i ∈ pos, i < 0 ∨ i ≥ db.t.rows.length) → db.extract pos = .error .indexError) :=
  ⟨extract_ok db pos, extract_err db pos⟩

theorem count_def [NumOps α] (db : DB α) (c : String) (v : α) (j : Nat) (hj : colIdx db.t.cols c = some j) :
    db.count c v = .ok ((db.t.rows.filter fun r => Num.eq (cellD r.2 j) v).length) := by
  simp [DB.count, hj, Table.column, List.countP_eq_length_filter, List.filter_map, Function.comp_def]

/-- **`count` is exact**: it returns the number of rows that HOLD the value — rows holding
another value, however close, are not counted: a value held by no row is counted 0 times, a
value held by some row at least once, and over the distinct values of the column the counts
add up to the number of rows (no row is counted for two values). -/
theorem count_exact [NumOps α] (heq : EqOK α) (db : DB α) (c : String) (j : Nat)
    (hj : colIdx db.t.cols c = some j) :
    (∀ v, db.count c v = .ok ((db.t.rows.filter fun r => Num.eq (cellD r.2 j) v).length) ∧
        ∀ r, r ∈ (db.t.rows.filter fun r => Num.eq (cellD r.2 j) v) ↔ r ∈ db.t.rows ∧ cellD r.2 j = v) ∧
    (∀ v, v ∉ db.t.column j ↔ db.count c v = .ok 0) ∧
    (((dedup (db.t.column j)).map fun v => (db.t.column j).countP fun x => Num.eq x v).sum = db.t.rows.length) := by
  refine ⟨?_, ?_, ?_⟩
  · intro v
    refine ⟨count_def db c v j hj, fun r => ?_⟩
    rw [List.mem_filter, heq]
  · intro v
    simp only [DB.count, hj]
    rw [← countP_eq_zero_iff_absent heq]
    constructor
    · intro h; rw [h]
    · intro h; exact Except.ok.inj h
  · rw [counts_partition heq]; simp [Table.column]

/-- the counts the driver returns for a list of values (`counts` request): one `count` each -/
theorem counts_def [NumOps α] (db : DB α) (c : String) (vs : List α) (j : Nat) (hj : colIdx db.t.cols c = some j) :
    db.counts c vs = .ok (vs.map fun v => (db.t.rows.filter fun r => Num.eq (cellD r.2 j) v).length) := by
  simp [DB.counts, hj, Table.column, List.countP_eq_length_filter, List.filter_map, Function.comp_def]

/-! ## flattening -/

/-- **Flattening a panel loses and invents nothing**: the groups are the individuals in
order of first appearance; group `i` consists of the rows of individual `i` in table order
(so observation `j` of the flat row is the `j`-th row of that individual), and all groups
together contain every row exactly once. -/
theorem flatten_roundtrip [NumOps α] (heq : EqOK α) (rows : List (Row α)) (j : Nat) :
    (((groupsBy rows j).map (·.2)).flatten).Perm rows ∧
    (∀ g ∈ groupsBy rows j, g.2 = rows.filter (fun r => Num.eq (cellD r.2 j) g.1) ∧
        g.2.Sublist rows ∧ ∀ r ∈ g.2, cellD r.2 j = g.1) ∧
    ((groupsBy rows j).map (·.1)).Nodup := by
  refine ⟨groupsBy_perm heq rows j, ?_, ?_⟩
  · intro g hg
    unfold groupsBy at hg
    obtain ⟨i, _, rfl⟩ := List.mem_map.mp hg
    refine ⟨rfl, List.filter_sublist, ?_⟩
    intro r hr
    simp only [List.mem_filter] at hr
    exact (heq _ _).mp hr.2
  · unfold groupsBy
    rw [List.map_map]
    have : ((fun x : α × List (Row α) => x.1) ∘ fun i => (i, rows.filter fun r => Num.eq (cellD r.2 j) i)) = id := rfl
    rw [this, List.map_id]
    exact nodup_dedup heq _

/-! ## operation sequences -/

/-- **Invariant over arbitrary sequences of remove / add_column / define_variable /
scale_column / panel** (calls that raise leave the object unchanged): every row keeps one
value per column; in panel mode the panel column exists, the rows are numbered 0..n-1 and
the individual map is the map of the runs of the current id column.
Guard (hence `_partial`): no `scale_column` targets a column used as panel column — the map
is keyed by the ids, which such a scaling changes (see `scale_panel_column_breaks_map`). -/
theorem history_inv_partial [NumOps α] (db : DB α) (ops : List (Op α)) (h : Inv db)
    (hg : ∀ c ∈ scaleTargets ops, c ∉ panelCandidates db ops) : Inv (db.run ops) :=
  run_inv ops db h hg

/-- a fresh `Database` object satisfies the invariant when its rows are well formed -/
theorem fresh_inv [NumOps α] (t : Table α) (hw : ∀ r ∈ t.rows, r.2.length = t.cols.length) :
    Inv (⟨t, 0, none, []⟩ : DB α) :=
  ⟨hw, fun c h => by cases h⟩

/-! ## witnesses and non-vacuity (on the integers) -/

/-- numbers = integers, for the examples -/
@[instance_reducible] def intOps : NumOps Int where
  add := (· + ·)
  sub := (· - ·)
  mul := (· * ·)
  div := (· / ·)
  neg := fun x => -x
  exp := id
  log := id
  sin := id
  cos := id
  sqrt := id
  pow := fun x _ => x
  abs := fun x => x.natAbs
  ofNat := fun n => n
  ofScientific := fun m _ _ => m
  lt := fun a b => decide (a < b)
  le := fun a b => decide (a ≤ b)
  eq := fun a b => decide (a = b)
  normalCdf := id

attribute [local instance] intOps

theorem intEqOK : EqOK Int := fun a b => by
  show decide (a = b) = true ↔ a = b
  simp

/-- **With duplicate labels the code as it is deletes too much** (known finding): the rows
carry the labels 0,1,0,1 (`pd.concat` of two frames) and x = 1,2,2,1; removing `x == 2`
should keep the first and the last row; dropping by label keeps nothing. -/
theorem remove_by_label_duplicates :
    let rows : List (Row Int) := [(0, [1]), (1, [2]), (0, [2]), (1, [1])]
    let mask := dropMask ((⟨["x"], rows⟩ : Table Int).eval (.eq (.var "x") (.num 2)))
    keepPositional rows mask = [(0, [1]), (1, [1])] ∧ keepByLabel rows mask = [] := by
  decide

/-- the guard of `history_inv_partial` is needed: scaling the id column of a panel by 0 leaves
a map that is no longer the map of the id column -/
theorem scale_panel_column_breaks_map :
    let db : DB Int := ⟨⟨["id"], [(0, [1]), (1, [2])]⟩, 0, some "id", [(1, 0, 0), (2, 1, 1)]⟩
    (db.map = runMap (db.t.column 0) 0) ∧
    ((okOr db (db.scale "id" 0)).map ≠ runMap ((okOr db (db.scale "id" 0)).t.column 0) 0) := by
  decide

example : splitSizes 10 4 = [3, 3, 2, 2] ∧ arraySplit [1, 2, 3, 4, 5, 6, 7] 3 = [[1, 2, 3], [4, 5], [6, 7]] ∧
    arraySplit [1, 2] 4 = [[1], [2], [], []] := by decide

example : (foldsOf [[1, 2], [3], [4, 5]]) = [([3, 4, 5], [1, 2]), ([1, 2, 4, 5], [3]), ([1, 2, 3], [4, 5])] := by
  decide

/-- a table with gaps in the labels: remove, then add a column -/
example :
    let t : Table Int := ⟨["id", "x"], [(0, [1, 4]), (2, [1, 5]), (5, [2, 6]), (9, [3, 7])]⟩
    keepPositional t.rows (dropMask (t.eval (.gt (.var "x") (.num 5)))) = [(0, [1, 4]), (2, [1, 5])] ∧
    (t.addCol "z" (.mul (.var "x") (.num 2))).rows = [(0, [1, 4, 8]), (2, [1, 5, 10]), (5, [2, 6, 12]), (9, [3, 7, 14])] := by
  decide

/-- identifiers that differ by one unit, after a removal left gaps in the labels: each is counted
for itself only; an absent neighbour is counted 0 times -/
example :
    let db : DB Int := ⟨⟨["hh", "x"], [(0, [4210017, 1]), (3, [4210018, 2]), (4, [4210017, 3]), (9, [4210019, 4])]⟩, 2, none, []⟩
    (db.count "hh" 4210017).toOption = some 2 ∧ (db.count "hh" 4210018).toOption = some 1 ∧
    (db.count "hh" 4210020).toOption = some 0 ∧
    (db.counts "hh" [4210017, 4210018, 4210019, 4210016]).toOption = some [2, 1, 1, 0] ∧
    (db.count "nope" 1).toOption = none := by
  decide

example : isFoldPartition [0, 2, 5, 9] 2 [([5, 9], [2, 0]), ([2, 0], [5, 9])] = true ∧
    isFoldPartition [0, 2, 5, 9] 2 [([5, 9], [2, 0]), ([2, 0], [5])] = false := by decide

example : groupsBy ([(0, [2, 7]), (1, [1, 8]), (2, [2, 9])] : List (Row Int)) 0 =
    [(2, [(0, [2, 7]), (2, [2, 9])]), (1, [(1, [1, 8])])] := by decide

end C13
