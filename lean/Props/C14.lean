/-
C14 — what is written to disk reads back unchanged and never overwrites earlier output.
Property theorems only (helper lemmas in Proofs/Files.lean and Proofs/Params.lean).
The instances for the *live* default-parameter table are in Generated/DefaultParams.lean
(rewritten from biogeme.default_parameters on every run).
-/
import Model.Files
import Model.Params
import Proofs.Files
import Proofs.Params
import Proofs.ParamsHistory
import Model.ResultsObj
import Proofs.ResultsObj

namespace C14

open Files

/-! ## fresh file names -/

/-- **`get_new_file_name` terminates with a fresh name, the first free one.**  For every
directory, base name and extension the search with fuel `|dir| + 1` succeeds; the name
returned does not exist; it is `name.ext` or `name~NN.ext` with the smallest number such
that all earlier candidates exist. -/
theorem fresh_name {γ} (d : Dir γ) (name ext : Name) :
    ∃ j, newFileName d name ext = some (candidate name ext j) ∧
      candidate name ext j ∉ names d ∧
      ∀ i, i < j → candidate name ext i ∈ names d := by
  obtain ⟨n, hn⟩ := search_terminates d (cand := candidate name ext)
    (fun a b h => candidate_inj name ext h)
  obtain ⟨j, _, _, hnj, hex, hall⟩ := searchFrom_some _ _ _ hn
  refine ⟨j, by rw [newFileName, hn, hnj], ?_, fun i hi => (existsB_iff d _).mp (hall i (Nat.zero_le _) hi)⟩
  intro hh
  have := (existsB_iff d _).mpr hh
  rw [hex] at this; cases this

/-- the candidate names are pairwise different (`:02d` is injective) -/
theorem candidates_distinct (name ext : Name) (a b : Nat)
    (h : candidate name ext a = candidate name ext b) : a = b := candidate_inj name ext h

/-- **One output never replaces a file.**  After a write through `get_new_file_name` the
name used did not exist before, now holds the new content, and every other name holds
what it held before (in particular every earlier file is untouched). -/
theorem write_untouched {γ} (d : Dir γ) (name ext : Name) (c : γ) :
    ∃ d' n, writeNew d name ext c = some (d', n) ∧ get d n = none ∧ get d' n = some c ∧
      (∀ m, m ≠ n → get d' m = get d m) ∧ d'.length = d.length + 1 := by
  obtain ⟨j, hw, hex, _⟩ := writeNew_spec d name ext c
  refine ⟨_, _, hw, get_none_of_not_exists d _ hex, ?_, ?_, rfl⟩
  · rw [get_cons]; simp
  · intro m hm; rw [get_cons]; simp [hm]

/-- **`k` successive outputs create `k` new names and leave existing files untouched**
(every history of writes, any mixture of base names and extensions, any starting
directory): the names produced are pairwise different, none existed at the start, each
still holds at the end what was written into it, every other name holds what it held at
the start, and the directory has grown by exactly `k` entries. -/
theorem k_writes_distinct {γ} (d : Dir γ) (ws : List (Name × Name × γ)) :
    ∃ ns : List Name,
      (run d (writes ws)).2 = ns.map some ∧
      ns.length = ws.length ∧
      ns.Nodup ∧
      (∀ n ∈ ns, n ∉ names d) ∧
      (∀ m, m ∉ ns → get (run d (writes ws)).1 m = get d m) ∧
      (run d (writes ws)).1.length = d.length + ws.length ∧
      (∀ p ∈ ns.zip ws, get (run d (writes ws)).1 p.1 = some p.2.2.2) :=
  run_writes ws d

/-- **General histories** (writes interleaved with deletions by the user and backups): a
file that exists at some moment and is not itself deleted or renamed afterwards keeps its
content whatever is written later. -/
theorem history_never_modifies {γ} (d : Dir γ) (ops : List (Op γ)) (m : Name) (c : γ)
    (hg : get d m = some c) (ht : ∀ op ∈ ops, touches op m = false) :
    get (run d ops).1 m = some c :=
  run_keeps ops d m c hg ht

/-- **Every name produced during any history is new at that moment**: whatever happened
before (`pre`), the name returned by the next write or backup does not exist in the
directory reached, and exists afterwards. -/
theorem produced_name_is_new {γ} (d : Dir γ) (pre : List (Op γ)) (op : Op γ) (n : Name)
    (h : (step (run d pre).1 op).2 = some n) :
    n ∉ names (run d pre).1 ∧ n ∈ names (step (run d pre).1 op).1 :=
  step_fresh _ op n h

/-- **`create_backup`**: nothing happens when the file is absent; otherwise the backup name
is new, it receives the content of the file, the original stays (copy) or disappears
(rename), and no other file changes. -/
theorem backup_fresh {γ} (d : Dir γ) (f : Name) (r : Bool) :
    (get d f = none ∧ createBackup d f r = none) ∨
    (∃ c d' n, get d f = some c ∧ createBackup d f r = some (d', n) ∧
      n ∉ names d ∧ get d' n = some c ∧
      get d' f = (if r then none else some c) ∧
      ∀ m, m ≠ n → m ≠ f → get d' m = get d m) := by
  rcases createBackup_spec d f r with h | ⟨c, j, hg, hex, _, hsome⟩
  · exact Or.inl h
  · right
    have hnot : backupCandidate (splitext f).1 (splitext f).2 j ∉ names d := fun hh => by
      have := (existsB_iff d _).mpr hh; rw [hex] at this; cases this
    have hfn : f ≠ backupCandidate (splitext f).1 (splitext f).2 j := fun hh =>
      hnot (hh ▸ (get_isSome_iff d f).mp (by simp [hg]))
    refine ⟨c, _, _, hg, hsome, hnot, ?_, ?_, ?_⟩
    · cases r <;> simp [get_put_self]
    · cases r with
      | false => simp only [Bool.false_eq_true, ↓reduceIte]; rw [get_put_ne _ _ _ _ hfn]; exact hg
      | true => simp only [↓reduceIte]; rw [get_put_ne _ _ _ _ hfn]; exact get_del_self d f
    · intro m hmn hmf
      cases r with
      | false => simp only [Bool.false_eq_true, ↓reduceIte]; exact get_put_ne _ _ _ _ hmn
      | true =>
        simp only [↓reduceIte]
        rw [get_put_ne _ _ _ _ hmn, get_del_ne d f m hmf]

/-- **`create_backup` takes the first free number, whatever the numbers already used**: the
backup is called `base_<j+1>ext` where every smaller number is taken and this one is not —
also when earlier backups were removed or files with such names were put there by the user
(the numbers in use need not be `1..n`). -/
theorem backup_first_free {γ} (d : Dir γ) (f : Name) (r : Bool) (d' : Dir γ) (n : Name)
    (h : createBackup d f r = some (d', n)) :
    ∃ j, n = backupCandidate (splitext f).1 (splitext f).2 j ∧ n ∉ names d ∧
      ∀ i, i < j → backupCandidate (splitext f).1 (splitext f).2 i ∈ names d := by
  rcases createBackup_spec d f r with ⟨_, hnone⟩ | ⟨c, j, _, hex, hall, hsome⟩
  · rw [hnone] at h; cases h
  · rw [hsome] at h
    simp only [Option.some.injEq, Prod.mk.injEq] at h
    refine ⟨j, h.2.symm, ?_, fun i hi => (existsB_iff d _).mp (hall i hi)⟩
    rw [← h.2]
    intro hh
    have := (existsB_iff d _).mpr hh
    rw [hex] at this; cases this

/-! ## recycling: which saved results belong to a model -/

/-- **`files_of_type` lists exactly `model.ext` and `model~….ext`** among the files of the
directory. -/
theorem files_of_type_exact (ns : List Name) (model ext n : Name) :
    n ∈ ofType ns model ext ↔
      n ∈ ns ∧ (n = model ++ '.' :: ext ∨ ∃ mid, n = model ++ '~' :: (mid ++ '.' :: ext)) := by
  rw [mem_ofType, ofTypeB_iff]

/-- **Every saved output of the model is found**: each name of the sequence
`name.ext, name~00.ext, …` that exists is listed. -/
theorem files_of_type_lists_own (ns : List Name) (model ext : Name) (j : Nat)
    (h : candidate model ext j ∈ ns) : candidate model ext j ∈ ofType ns model ext :=
  (mem_ofType ns model ext _).mpr ⟨h, ofTypeB_own model ext j⟩

/-- **The saved outputs of another model are never taken for those of this one**: no file
`model'.ext`, `model'~NN.ext` is listed for `model`, unless the names are equal or one is the
other followed by `~…` (in particular a model whose name merely *starts with* the name of this
one, `logit_income` for `logit`, or `<model>_validation` written by `validate`, is ignored). -/
theorem files_of_type_ignores_other_models (ns : List Name) (model model' ext : Name) (j : Nat)
    (hne : model' ≠ model) (h1 : ∀ r, model' ≠ model ++ '~' :: r) (h2 : ∀ r, model ≠ model' ++ '~' :: r) :
    candidate model' ext j ∉ ofType ns model ext := by
  intro h
  rcases ofTypeB_other model model' ext j ((mem_ofType ns model ext _).mp h).2 with h | ⟨r, h⟩ | ⟨r, h⟩
  · exact hne h
  · exact h1 r h
  · exact h2 r h

/-- the exception is real: the second output of a model called `m` and the first one of a model
called `m~00` have the same name -/
theorem files_of_type_tilde_overlap :
    candidate "m".toList "pickle".toList 1 = candidate "m~00".toList "pickle".toList 0 := by decide

/-- The choice of the pickle file by `estimate(recycle=True)` as coded today (largest name
in string order) is **not** the most recent file once more than 101 files exist:
`m~100.pickle` sorts before `m~99.pickle`.  (Known finding; `recycleChoice` is the
repaired behaviour.) -/
theorem recycle_lex_not_latest :
    let ns := (List.range 102).map (candidate "m".toList "pickle".toList)
    recycleChoiceLex ns "m".toList "pickle".toList = some "m~99.pickle".toList ∧
    recycleChoice ns "m".toList "pickle".toList = some "m~100.pickle".toList := by
  decide +kernel

/-- **The documented sequence of names**: `k` successive outputs of one model and extension
into a directory that holds no such file are called `name.ext, name~00.ext, name~01.ext, …`
(three digits from the 102nd on), in this order. -/
theorem same_name_sequence {γ} (d : Dir γ) (name ext : Name) (cs : List γ)
    (h0 : ∀ j, candidate name ext j ∉ names d) :
    (run d (cs.map fun c => Op.write name ext c)).2 =
      (List.range cs.length).map fun j => some (candidate name ext j) := by
  have hE : ExactlyFirst d name ext 0 := fun j => ⟨fun h => absurd h (h0 j), fun h => by omega⟩
  have := (same_name_run name ext cs d 0 hE).1
  rw [this, List.range_eq_range']

/-- **Repaired recycling reads the results saved last**: after `k ≥ 1` such outputs the
file chosen by `recycleChoice` (largest index among the existing files of the sequence) is
the one written last. -/
theorem recycle_reads_last {γ} (d : Dir γ) (name ext : Name) (cs : List γ) (hk : 0 < cs.length)
    (h0 : ∀ j, candidate name ext j ∉ names d) :
    recycleChoice (names (run d (cs.map fun c => Op.write name ext c)).1) name ext =
      some (candidate name ext (cs.length - 1)) := by
  have hE : ExactlyFirst d name ext 0 := fun j => ⟨fun h => absurd h (h0 j), fun h => by omega⟩
  obtain ⟨_, h2, h3⟩ := same_name_run name ext cs d 0 hE
  rw [Nat.zero_add] at h2
  exact recycleChoice_last _ name ext cs.length hk (by rw [h3]; omega) h2

/-! ## parameter file -/

open Params

/-- **Value coding round trip**: for every declared type and every value of that type
(Booleans for `bool` parameters, anything but a Boolean otherwise: ints of any size, every
double including ±inf, NaN patterns, −0.0, every string) decoding the coded value gives the
value back. -/
theorem param_roundtrip (t : PType) (v : Val) (h : typeOK t v = true) :
    decode t (encode v) = .ok v :=
  decode_encode t v h

/-- The guard is needed: a Python `bool` stored in an `int` parameter (accepted by
`is_integer`, since `bool ⊂ int`) is written as the string "True" and read back as that
string. -/
theorem param_roundtrip_needs_type :
    decode .int (encode (.b true)) = .ok (.s "True") ∧ (Val.s "True") ≠ (.b true) := by
  decide

/-- **Boolean coding**: exactly the eight spellings are accepted, with their meaning. -/
theorem bool_spellings (v : Val) (b : Bool) :
    parseBoolean v = .ok b ↔
      ∃ x, v = .s x ∧ ((b = true ∧ x ∈ ["True", "true", "Yes", "yes"]) ∨
                        (b = false ∧ x ∈ ["False", "false", "No", "no"])) :=
  parseBoolean_ok_iff v b

/-- **Table obligation → admissible values round trip.**  For a table satisfying `tableOK`
(checked by `decide` on the generated default table): every value admitted by the checks
of an entry round trips, provided that for non-`bool` entries it is not a Python `bool`
(for `bool` entries the `is_boolean` check already forces a Boolean). -/
theorem table_roundtrip (algos : List String) (tbl : List Entry)
    (hok : tableOK algos tbl = true) (e : Entry) (he : e ∈ tbl) (v : Val)
    (hadm : admitted algos e v = true) (hnb : e.type ≠ .bool → v.isBool = false) :
    decode e.type (encode v) = .ok v := by
  apply decode_encode
  simp only [tableOK, Bool.and_eq_true, List.all_eq_true] at hok
  have hE := hok.2 e he
  simp only [Bool.and_eq_true, Bool.or_eq_true, bne_iff_ne, ne_eq] at hE
  by_cases hb : e.type = .bool
  · have hcheck : e.checks.contains "is_boolean" = true := by
      rcases hE.1.2 with h | h
      · exact absurd hb h
      · exact h
    have hmem : "is_boolean" ∈ e.checks := by simpa using hcheck
    have hall : checkAll algos e.checks v false = .ok () := by
      simp only [admitted] at hadm
      split at hadm
      · rename_i u hu; cases u; exact hu
      · cases hadm
    have := is_boolean_forces_bool algos v (checkAll_ok_mem algos e.checks v hall _ hmem)
    simp [typeOK, hb, this]
  · have := hnb hb
    cases ht : e.type <;> simp_all [typeOK]

/-- **Dump then read gives back every parameter** (section/name keys preserved): for a
parameter set with pairwise different (section, name) keys whose values have the declared
kind and pass their checks, reading the generated document into any parameter set with the
same keys, types and checks but arbitrary other values (a fresh `Parameters()`) yields
exactly the dumped set — same keys, same order, same value for every parameter. -/
theorem file_roundtrip (algos : List String) (ps : List Entry) (w : Entry → Val)
    (hnd : (ps.map (·.key)).Nodup)
    (hv : ∀ e ∈ ps, typeOK e.type e.value = true ∧ admitted algos e e.value = true) :
    importDocument algos (ps.map fun e => { e with value := w e }) (generateDocument ps) = .ok ps := by
  apply import_generate algos w ps hnd
  intro e he
  refine ⟨(hv e he).1, ?_⟩
  have := (hv e he).2
  simp only [admitted] at this
  split at this
  · rename_i u hu; cases u; exact hu
  · cases this

/-- consequently every key maps back to its own value -/
theorem keys_preserved (algos : List String) (ps : List Entry) (w : Entry → Val)
    (hnd : (ps.map (·.key)).Nodup)
    (hv : ∀ e ∈ ps, typeOK e.type e.value = true ∧ admitted algos e e.value = true)
    (e : Entry) (he : e ∈ ps) :
    ∃ ps', importDocument algos (ps.map fun e => { e with value := w e }) (generateDocument ps) = .ok ps' ∧
      getValue ps' e.key = some e.value := by
  refine ⟨ps, file_roundtrip algos ps w hnd hv, ?_⟩
  have := find_mix w (fun _ => true) ps hnd e he
  simp only [mix, ↓reduceIte, List.map_id'] at this
  simp [getValue, this]

/-- entries of the file that biogeme does not know are ignored -/
theorem unknown_entry_ignored (algos : List String) (ps : List Entry) (sec name : String) (tv : Val)
    (h : find ps (sec, name) = none) : importEntry algos ps sec name tv = .ok ps :=
  importEntry_unknown algos ps sec name tv h

/-- **Histories of one `Parameters` object.**  Start from any parameter set with pairwise
different keys and admissible values (a fresh `Parameters()`), and apply any sequence of
`read_file` (complete, incomplete, empty files, files with unknown sections or entries),
`set_value`, `add_parameter` and `dump_file` — refused `set_value` / `add_parameter` change
nothing; the history stays in the domain as long as no `read_file` raises and no value of another
kind than declared is stored.  Then the file written by `dump_file` **now**, read into any object
with the same parameters (other values), gives every parameter its current value: the document is
regenerated from the values, whatever document the object was holding. -/
theorem history_dump_roundtrip (algos : List String) (s0 s : PState) (ops : List POp) (w : Entry → Val)
    (h0 : (s0.params.map (·.key)).Nodup)
    (hv0 : ∀ e ∈ s0.params, typeOK e.type e.value = true ∧ admitted algos e e.value = true)
    (hr : runP algos s0 ops = some s) :
    importDocument algos (s.params.map fun e => { e with value := w e }) (dumpDoc s) = .ok s.params := by
  have hg0 : GoodState algos s0 :=
    ⟨⟨h0, fun e he => (hv0 e he).2⟩, List.all_eq_true.mpr fun e he => (hv0 e he).1⟩
  have hg := runP_good algos ops s0 s hg0 hr
  exact file_roundtrip algos s.params w hg.1.1
    (fun e he => ⟨List.all_eq_true.mp hg.2 e he, hg.1.2 e he⟩)

/-- in particular a parameter changed after an incomplete file was read is in the next dump, and a
second dump writes the same file as the first -/
theorem history_value_in_dump (algos : List String) (s0 s : PState) (ops : List POp) (w : Entry → Val)
    (h0 : (s0.params.map (·.key)).Nodup)
    (hv0 : ∀ e ∈ s0.params, typeOK e.type e.value = true ∧ admitted algos e e.value = true)
    (hr : runP algos s0 ops = some s) (e : Entry) (he : e ∈ s.params) :
    ∃ ps', importDocument algos (s.params.map fun e => { e with value := w e }) (dumpDoc s) = .ok ps' ∧
      getValue ps' e.key = some e.value ∧
      runP algos s0 (ops ++ [.dump]) = some ⟨s.params, some (dumpDoc s)⟩ := by
  have hg0 : GoodState algos s0 :=
    ⟨⟨h0, fun e he => (hv0 e he).2⟩, List.all_eq_true.mpr fun e he => (hv0 e he).1⟩
  have hg := runP_good algos ops s0 s hg0 hr
  refine ⟨s.params, history_dump_roundtrip algos s0 s ops w h0 hv0 hr, ?_, ?_⟩
  · have := find_mix w (fun _ => true) s.params hg.1.1 e he
    simp only [mix, ↓reduceIte, List.map_id'] at this
    simp [getValue, this]
  · clear hg hg0 h0 hv0 he
    induction ops generalizing s0 with
    | nil => simp only [runP] at hr; injection hr with hr; subst hr; rfl
    | cons op ops ih =>
      simp only [runP, List.cons_append] at hr ⊢
      split at hr
      · rename_i q hq; exact ih q hr
      · cases hr

/-- **The name of the file is an input of the round trip.**  Under any name that `read_file`
accepts (several dots, device-like names such as `aux.toml` on a system that is not Windows, other
case, spaces, unicode, leading dot or dash, up to 255 characters) what was dumped reads back. -/
theorem named_roundtrip (algos : List String) (ps : List Entry) (w : Entry → Val) (base : String)
    (hname : validFileName base = true) (hnd : (ps.map (·.key)).Nodup)
    (hv : ∀ e ∈ ps, typeOK e.type e.value = true ∧ admitted algos e e.value = true) :
    ∃ d, dumpNamed ps base = .ok d ∧
      readNamed algos (ps.map fun e => { e with value := w e }) base d = .ok ps := by
  refine ⟨_, rfl, ?_⟩
  simp only [readNamed, hname, if_true]
  exact file_roundtrip algos ps w hnd hv

/-- As coded, `dump_file` writes under names that `read_file` refuses to read (`a:b.toml`, `q?.toml`):
the reader then silently keeps its own values (known finding FC14-7) … -/
theorem refused_name_keeps_reader_values (algos : List String) (ps qs : List Entry) (base : String)
    (hname : validFileName base = false) :
    ∃ d, dumpNamed ps base = .ok d ∧ readNamed algos qs base d = .ok qs := by
  refine ⟨_, rfl, ?_⟩
  simp [readNamed, hname]

/-- … the repaired `dump_file` refuses exactly those names: whatever it writes reads back. -/
theorem named_roundtrip_repaired (algos : List String) (ps : List Entry) (w : Entry → Val) (base : String) (d : Doc)
    (hd : dumpNamedFixed ps base = .ok d) (hnd : (ps.map (·.key)).Nodup)
    (hv : ∀ e ∈ ps, typeOK e.type e.value = true ∧ admitted algos e e.value = true) :
    readNamed algos (ps.map fun e => { e with value := w e }) base d = .ok ps := by
  unfold dumpNamedFixed at hd
  split at hd
  · rename_i hname
    injection hd with hd; subst hd
    simp only [readNamed, hname, if_true]
    exact file_roundtrip algos ps w hnd hv
  · cases hd

/-! ## reports and pickle -/

open Reports

/-- **Every report lists every estimated parameter with its value**: for each parameter
there is a row of the HTML table, of the LaTeX table, of the printed form and of the F12
file built from its name and its formatted value. -/
theorem reports_list_every_parameter (fmt : Text → Text) (rs : List (Bool × Row)) (p : Bool × Row)
    (hp : p ∈ rs) :
    htmlRow p.2 ∈ htmlRows (rs.map (·.2)) ∧ strRow p.2 ∈ strRows (rs.map (·.2)) ∧
    latexRow fmt p.2 ∈ latexRows fmt (rs.map (·.2)) ∧ f12Row p.1 p.2 ∈ f12Rows rs := by
  refine ⟨?_, ?_, ?_, ?_⟩
  · exact List.mem_map.mpr ⟨p.2, List.mem_map.mpr ⟨p, hp, rfl⟩, rfl⟩
  · exact List.mem_map.mpr ⟨p.2, List.mem_map.mpr ⟨p, hp, rfl⟩, rfl⟩
  · exact List.mem_map.mpr ⟨p.2, List.mem_map.mpr ⟨p, hp, rfl⟩, rfl⟩
  · exact List.mem_map.mpr ⟨p, hp, rfl⟩

/-- F12 shows the whole name when it has at most ten characters … -/
theorem f12_label_short (name : Text) (h : name.length ≤ 10) :
    f12Label name = List.replicate (10 - name.length) ' ' ++ name := by
  simp [f12Label, padLeft, List.take_of_length_le h]

/-- … and only its first ten characters otherwise (format of the ALOGIT file): two
parameters can share a label. -/
theorem f12_label_collision :
    "beta_time_car".toList ≠ "beta_time_bus".toList ∧
    f12Label "beta_time_car".toList = f12Label "beta_time_bus".toList := by
  decide

/-- The LaTeX cell formatter as coded appends ".0" to exponent notation and to nan/inf
(known finding); the repaired formatter leaves them alone. -/
theorem latexFmt_breaks_exponent :
    latexFmt "2e+05".toList = "2e+05.0".toList ∧ latexFmt "nan".toList = "nan.0".toList ∧
    latexFmtFixed "2e+05".toList = "2e+05".toList ∧ latexFmtFixed "nan".toList = "nan".toList ∧
    latexFmtFixed "-12".toList = "-12.0".toList ∧ latexFmtFixed "0.5".toList = "0.5".toList := by
  decide

theorem latexFmtFixed_spec (s : Text) :
    latexFmtFixed s = s ∨ (isIntLiteral s = true ∧ latexFmtFixed s = s ++ ".0".toList) := by
  unfold latexFmtFixed
  cases h : isIntLiteral s <;> simp

/-- **Statistics after loading = statistics before saving** (given that pickle returns the
object it was given — trusted): `_calculate_stats` reads raw data only, so the derived part
of the loaded object equals that of the saved one, whatever derived values and file names
the stored object carried; raw data and recorded file names are those of the saved object. -/
theorem pickle_rederive {ρ δ β} (stats : ρ → δ) (dump : Stored ρ δ → β) (load : β → Stored ρ δ)
    (hpickle : ∀ s, load (dump s) = s) (s : Stored ρ δ) (file : Text) :
    let saved := writePickle dump (recalc stats s) file
    let loaded := loadPickle load stats saved.2
    loaded.derived = (recalc stats s).derived ∧ loaded.raw = s.raw ∧
    loaded.pickleFile = some file ∧ loaded.htmlFile = s.htmlFile ∧
    loaded.latexFile = s.latexFile ∧ loaded.f12File = s.f12File := by
  simp [writePickle, loadPickle, recalc, hpickle]

/-! ## the results object: what is stored, what is recomputed, which report needs what -/

section ResultsObject
open ResObj

/-- **`_calculate_stats` changes nothing when applied again**: the object it returns is a fixed
point (it computes from the raw attributes only, and leaves them alone). -/
theorem stats_idempotent {V} (F : Attr → Obj V → Option V) (o o' : Obj V)
    (h : calcStats F o = .ok o') : calcStats F o' = .ok o' :=
  fixed_of_calcStats F o o' h

/-- **Save / load round trip for every kind of results object.**  Whatever the constructor was
given (with or without hessian, gradient, bootstrap sample, null / initial log likelihood, user
notes; any number of parameters), whatever report files were written before (`ws`): the object
rebuilt by `bioResults(pickle_file=…)` from the file written by `write_pickle` has exactly the
attributes of the saved object — the same ones missing, the same ones `None`, the same values —
given only that pickle returns what it was given. -/
theorem results_roundtrip {V β} (F : Attr → Obj V → Option V) (dump : Obj V → β) (load : β → Obj V)
    (hpickle : ∀ o, load (dump o) = o) (c : Ctor V) (r : Obj V) (hb : build F c = .ok r)
    (ws : List (FileAttr × V)) (file : V) :
    ResObj.loadPickle F load (ResObj.writePickle dump (record r ws) file).2
      = .ok (ResObj.writePickle dump (record r ws) file).1 := by
  simp only [ResObj.writePickle, ResObj.loadPickle, hpickle]
  exact fixed_set_file F _ .pickle _ (fixed_record F ws r (fixed_of_calcStats F _ r hb))

/-- hence every report, printed form and statistic — anything computed from the object — is the
same for the loaded object as for the saved one: the same text, or the same error. -/
theorem every_view_same {V β γ} (F : Attr → Obj V → Option V) (dump : Obj V → β) (load : β → Obj V)
    (hpickle : ∀ o, load (dump o) = o) (c : Ctor V) (r : Obj V) (hb : build F c = .ok r)
    (ws : List (FileAttr × V)) (file : V) (view : Obj V → γ) :
    ∃ loaded, ResObj.loadPickle F load (ResObj.writePickle dump (record r ws) file).2 = .ok loaded ∧
      view loaded = view (ResObj.writePickle dump (record r ws) file).1 :=
  ⟨_, results_roundtrip F dump load hpickle c r hb ws file, rfl⟩

/-- the constructor accepts every combination of optional inputs but a hessian without BHHH matrix
(so the round trip theorem speaks about all these kinds of objects) -/
theorem build_ok_iff {V} (F : Attr → Obj V → Option V) (c : Ctor V) :
    (∃ r, build F c = .ok r) ↔ (c.H = true → c.bhhh = true) := by
  rcases c with ⟨vals, un, il, nl, g, h, b, bs, k⟩
  cases h <;> cases b <;> cases bs <;> cases il <;> cases nl <;>
    simp [build, calcStats, construct, needed, opt, Slot.isAbsent, Slot.isVal, kindOf]

/-- **Not every statistic is recomputed on load.**  For results without second derivatives
(`quick_estimate`) `_calculate_stats` does not assign `secondOrderTable`: the `None` the
constructor put there must come back from the file.  A pickle that drops what `_calculate_stats`
assigns loads into an object where the attribute is missing … -/
theorem dropping_statistics_loses_information {V} (F : Attr → Obj V → Option V) (c : Ctor V)
    (hH : c.H = false) (file : V) :
    ∃ r o', build F c = .ok r ∧
      ResObj.loadPickle F id (dropDerived (ResObj.set r Attr.pickleFileName (.val file))) = .ok o' ∧
      r Attr.secondOrderTable = .none ∧ o' Attr.secondOrderTable = .absent := by
  rcases c with ⟨vals, un, il, nl, g, h, b, bs, k⟩
  subst hH
  refine ⟨calcCore F (construct ⟨vals, un, il, nl, g, false, b, bs, k⟩),
    calcCore F (dropDerived (ResObj.set (calcCore F (construct ⟨vals, un, il, nl, g, false, b, bs, k⟩))
    Attr.pickleFileName (.val file))), ?_, ?_, rfl, rfl⟩
  · rw [build, calcStats_eq]
    have : pre (construct (V := V) ⟨vals, un, il, nl, g, false, b, bs, k⟩) = .ok () := by
      cases il <;> cases nl <;> cases bs <;> rfl
    rw [this]; rfl
  · rw [ResObj.loadPickle, id, calcStats_eq]
    have : pre (dropDerived (ResObj.set (calcCore F (construct (V := V) ⟨vals, un, il, nl, g, false, b, bs, k⟩))
        Attr.pickleFileName (.val file))) = .ok () := by
      cases il <;> cases nl <;> cases bs <;> rfl
    rw [this]; rfl

/-- … and the printed form, which reads it, raises AttributeError for the loaded object although
it is produced for the saved one. -/
theorem printed_form_needs_secondOrderTable {V} (o : Obj V) (k : Nat)
    (h : o Attr.secondOrderTable = .absent) (hok : ∀ a, a ≠ Attr.secondOrderTable → (o a).isVal = true) :
    runView o k strView = .error .attributeError := by
  have e : ∀ a, a ≠ Attr.secondOrderTable → ∃ v, o a = .val v := by
    intro a ha
    have := hok a ha
    cases hv : o a <;> simp [hv, Slot.isVal] at this
    exact ⟨_, rfl⟩
  obtain ⟨_, h1⟩ := e Attr.modelName (by decide)
  obtain ⟨_, h2⟩ := e Attr.htmlFileName (by decide)
  obtain ⟨_, h3⟩ := e Attr.latexFileName (by decide)
  obtain ⟨_, h4⟩ := e Attr.nparam (by decide)
  obtain ⟨_, h5⟩ := e Attr.sampleSize (by decide)
  obtain ⟨_, h6⟩ := e Attr.numberOfObservations (by decide)
  obtain ⟨_, h7⟩ := e Attr.excludedData (by decide)
  obtain ⟨_, h8⟩ := e Attr.nullLogLike (by decide)
  obtain ⟨_, h9⟩ := e Attr.initLogLike (by decide)
  obtain ⟨_, h10⟩ := e Attr.logLike (by decide)
  obtain ⟨_, h11⟩ := e Attr.likelihoodRatioTestNull (by decide)
  obtain ⟨_, h12⟩ := e Attr.rhoSquareNull (by decide)
  obtain ⟨_, h13⟩ := e Attr.rhoBarSquareNull (by decide)
  obtain ⟨_, h14⟩ := e Attr.likelihoodRatioTest (by decide)
  obtain ⟨_, h15⟩ := e Attr.rhoSquare (by decide)
  obtain ⟨_, h16⟩ := e Attr.rhoBarSquare (by decide)
  obtain ⟨_, h17⟩ := e Attr.akaike (by decide)
  obtain ⟨_, h18⟩ := e Attr.bayesian (by decide)
  obtain ⟨_, h19⟩ := e Attr.gradientNorm (by decide)
  obtain ⟨_, h20⟩ := e Attr.betas (by decide)
  obtain ⟨_, h21⟩ := e Attr.betaStats (by decide)
  obtain ⟨_, h22⟩ := e Attr.betaBootStats (by decide)
  simp [runView, strView, req, reqIf, guardsHold, readOne, h, h1, h2, h3, h4, h5, h6, h7, h8, h9, h10, h11,
    h12, h13, h14, h15, h16, h17, h18, h19, h20, h21, h22]

/-- the object built from the constructor data when every statistic has a value (no division by a
zero log likelihood) -/
def builtObj {V} (G : Attr → Obj V → V) (c : Ctor V) : Obj V :=
  calcCore (fun a o => some (G a o)) (construct c)

/-- **The printed form and the short summary exist for every kind of results object.** -/
theorem printed_form_total {V} (G : Attr → Obj V → V) (c : Ctor V) :
    runView (builtObj G c) c.k strView = .ok () ∧ runView (builtObj G c) c.k shortSummaryView = .ok () := by
  rcases c with ⟨vals, un, il, nl, g, h, b, bs, k⟩
  constructor <;>
  cases un <;> cases il <;> cases nl <;> cases g <;> cases h <;> cases bs <;> rfl

/-- **The HTML report needs the second derivatives** (known finding FC14-4: AttributeError on
`smallestEigenValue` for the results of `quick_estimate`); with them it is produced whatever else
is missing. -/
theorem html_iff_second_derivatives {V} (G : Attr → Obj V → V) (c : Ctor V) :
    runView (builtObj G c) c.k htmlView = if c.H then .ok () else .error .attributeError := by
  rcases c with ⟨vals, un, il, nl, g, h, b, bs, k⟩
  cases un <;> cases il <;> cases nl <;> cases g <;> cases h <;> cases bs <;> rfl

/-- **The LaTeX report** formats every general statistic: TypeError without gradient or initial log
likelihood; AttributeError (`secondOrderTable` is `None`) without second derivatives. -/
theorem latex_outcome {V} (G : Attr → Obj V → V) (c : Ctor V) :
    runView (builtObj G c) c.k latexView =
      if c.initLogLike && c.g then (if c.H then .ok () else .error .attributeError) else .error .typeError := by
  rcases c with ⟨vals, un, il, nl, g, h, b, bs, k⟩
  cases un <;> cases il <;> cases nl <;> cases g <;> cases h <;> cases bs <;> rfl

/-- **The F12 report** reads the correlations for each pair of parameters: it needs the second
derivatives exactly when there are at least two parameters. -/
theorem f12_outcome {V} (G : Attr → Obj V → V) (c : Ctor V) :
    runView (builtObj G c) c.k f12View = if c.H || decide (c.k < 2) then .ok () else .error .typeError := by
  rcases c with ⟨vals, un, il, nl, g, h, b, bs, k⟩
  by_cases hk : k < 2 <;>
  cases un <;> cases il <;> cases nl <;> cases g <;> cases h <;> cases bs <;>
    simp [runView, f12View, generalView, estimatedView, req, reqIf, guardsHold, readOne, builtObj, calcCore,
      construct, kindOf, opt, Slot.isVal, Slot.ofOption, hk]

end ResultsObject

/-! ## non-vacuity -/

/-- a directory with gaps: `m.html`, `m~00.html`, `m~02.html` exist → `m~01.html` -/
example : newFileName [("m.html".toList, 1), ("m~00.html".toList, 2), ("m~02.html".toList, 3)]
    "m".toList "html".toList = some "m~01.html".toList := by decide

/-- the hundred-and-second name has three digits -/
example : candidate "m".toList "pickle".toList 101 = "m~100.pickle".toList := by decide

example : (run [("m.html".toList, 0)]
    [.write "m".toList "html".toList 1, .delete "m.html".toList, .write "m".toList "html".toList 2,
     .backup "m.html".toList true, .write "m".toList "tex".toList 3]).2
    = [some "m~00.html".toList, none, some "m.html".toList, some "m_1.html".toList,
       some "m.tex".toList] := by decide

/-- backups with gaps: `_1` was removed, `_2`, `_3` are there → `_1` again, then `_4` -/
example : (run [("e.txt".toList, 9), ("e_2.txt".toList, 2), ("e_3.txt".toList, 3)]
    [.backup "e.txt".toList false, .backup "e.txt".toList true, .create "e.txt".toList 7,
     .backup "e.txt".toList false]).2
    = [some "e_1.txt".toList, some "e_4.txt".toList, none, some "e_5.txt".toList] := by decide

/-- two models in one directory, the name of one starting with the name of the other -/
example : ofType ["logit.pickle".toList, "logit_income.pickle".toList, "logit~00.pickle".toList,
      "logit_validation.pickle".toList, "logit.html".toList, "xlogit.pickle".toList,
      "logit~00.pickle.bak".toList, "logit.pickle~".toList]
    "logit".toList "pickle".toList = ["logit.pickle".toList, "logit~00.pickle".toList] := by decide

example : ∀ r, "logit_income".toList ≠ "logit".toList ++ '~' :: r := by
  intro r h; simp at h

example : splitext "..a.b.c".toList = ("..a.b".toList, ".c".toList) ∧
    splitext "...x".toList = ("...x".toList, []) := by decide

example : typeOK .float (.f 0x7FF0000000000000) = true ∧ typeOK .bool (.b false) = true ∧
    typeOK .str (.s "True") = true := by decide

/-- a two-section table with a Boolean, read into other values -/
example :
    let ps : List Entry := [⟨"A", "x", .bool, .b false, ["is_boolean"]⟩,
                            ⟨"B", "x", .int, .i (-5), ["is_integer"]⟩,
                            ⟨"A", "y", .str, .s "TR-BFGS", ["check_algo_name"]⟩]
    importDocument ["TR-BFGS"] (ps.map fun e => { e with value := .i 0 }) (generateDocument ps) = .ok ps := by
  decide

/-- a results object without second derivatives but with a bootstrap sample (quick estimation after
an estimation with bootstrap), two report files written, saved and loaded: same object -/
example :
    let c : ResObj.Ctor String := ⟨fun a => a.name, true, true, false, false, false, false, true, 1⟩
    let F : ResObj.Attr → ResObj.Obj String → Option String := fun a _ => some a.name
    ∃ r, ResObj.build F c = .ok r ∧ r ResObj.Attr.secondOrderTable = .none ∧
      r ResObj.Attr.bootstrap_time = .val "bootstrap_time" ∧ r ResObj.Attr.varCovar = .absent ∧
      ResObj.runView r 1 ResObj.f12View = .ok () ∧ ResObj.runView r 1 ResObj.htmlView = .error .attributeError :=
  ⟨_, rfl, rfl, rfl, rfl, rfl, rfl⟩

/-- the hypotheses of `printed_form_needs_secondOrderTable` describe an object that exists -/
example : ∃ o : ResObj.Obj Unit, o ResObj.Attr.secondOrderTable = .absent ∧
    (∀ a, a ≠ ResObj.Attr.secondOrderTable → (o a).isVal = true) ∧
    ResObj.runView o 3 ResObj.strView = .error .attributeError :=
  ⟨fun a => if a = ResObj.Attr.secondOrderTable then .absent else .val (), rfl,
    fun a h => by simp [h, ResObj.Slot.isVal], by decide⟩

/-- `stats_idempotent` / `results_roundtrip` on a complete results object with two report files:
the loaded object is the saved one -/
example :
    let c : ResObj.Ctor String := ⟨fun a => a.name, false, true, true, true, true, true, false, 3⟩
    let F : ResObj.Attr → ResObj.Obj String → Option String := fun a _ => some a.name
    ∃ r, ResObj.build F c = .ok r ∧
      (ResObj.allAttrs.all fun a =>
        match ResObj.loadPickle F id (ResObj.writePickle id (ResObj.record r [(.html, "m.html"), (.f12, "m.F12")]) "m.pickle").2 with
        | .ok o => o a == (ResObj.writePickle id (ResObj.record r [(.html, "m.html"), (.f12, "m.F12")]) "m.pickle").1 a
        | .error _ => false) = true :=
  ⟨_, rfl, by decide⟩

example : (ResObj.views.map (·.1)).length = 12 ∧ ResObj.allAttrs.length = 57 ∧ ResObj.allAttrs.Nodup := by decide

/-- an (almost) empty file is read, a parameter absent from it is set, a user parameter is added, the
object is dumped twice: the document holds the current values (not those of the file read) -/
example :
    let ps : List Entry := [⟨"A", "x", .bool, .b false, ["is_boolean"]⟩, ⟨"B", "y", .int, .i 5, ["is_integer"]⟩]
    (runP [] ⟨ps, none⟩ [.read [("A", [("x", .s "yes")]), ("Unknown", [("z", .i 1)])], .set none "y" (.i 7),
        .add ⟨"U", "y", .int, .i 9, ["is_integer"]⟩, .dump, .set (some "B") "y" (.i 8), .dump]).map dumpDoc
      = some [("A", [("x", .s "True")]), ("B", [("y", .i 8)]), ("U", [("y", .i 9)])] := by decide

example : validFileName "aux.toml" = true ∧ validFileName "Aux.v2.toml" = true ∧ validFileName ".hidden.toml" = true ∧
    validFileName "a:b.toml" = false ∧ validFileName "" = false ∧ validFileName "q?.toml" = false := by decide

end C14
