/-
C15 — the saved-iteration file is always a sound restart point.
Property theorems only (helper lemmas in Proofs/IterFile.lean).
-/
import Model.IterFile
import Proofs.IterFile

open IterFile

namespace C15

/-- Python's `>=` on the likelihood values that occur (no NaN): total, transitive. -/
structure GeOK {α} (ge : α → α → Bool) : Prop where
  total : ∀ a b, ge a b = true ∨ ge b a = true
  trans : ∀ a b c, ge a b = true → ge b c = true → ge a c = true

/-- **Clause (a)+(b), every history.**  After any sequence of evaluations issued after
the start of an estimation (`reset`), either no evaluation had a finite gradient and
the file is what it was before, or the file holds exactly the values of an evaluated
point with finite gradient whose likelihood is ≥ that of every evaluated point with
finite gradient (improving, worsening, tied and non-finite steps in any order). -/
theorem file_is_best {α} (ge : α → α → Bool) (hge : GeOK ge) (s₀ : St α) (h : List (Eval α)) :
    let s := run ge (reset s₀) h
    ((∀ e ∈ h, e.finite = false) ∧ s.file = s₀.file ∧ s.best = none) ∨
    (∃ e ∈ h, e.finite = true ∧ s.file = some e.x ∧ s.best = some e.f ∧
        ∀ q ∈ h, q.finite = true → ge e.f q.f = true) :=
  IterFile.run_inv ge hge.total hge.trans s₀ h

/-- **A restart never begins below the original start**: when the first evaluation of
the estimation is the starting point (finite), the point in the file is at least as
good. -/
theorem never_below_start {α} (ge : α → α → Bool) (hge : GeOK ge) (s₀ : St α)
    (e₀ : Eval α) (h : List (Eval α)) (hfin : e₀.finite = true) :
    ∃ e ∈ e₀ :: h, e.finite = true ∧ (run ge (reset s₀) (e₀ :: h)).file = some e.x ∧
      ge e.f e₀.f = true := by
  rcases file_is_best ge hge s₀ (e₀ :: h) with h1 | ⟨e, he, hf, hfile, _, hall⟩
  · have := h1.1 e₀ (List.mem_cons_self); rw [hfin] at this; cases this
  · exact ⟨e, he, hf, hfile, hall e₀ (List.mem_cons_self) hfin⟩

/-- **Every intermediate file** (what is on disk after each call) is also the best so
far: the statement above applied to every prefix of the history. -/
theorem every_prefix_is_best {α} (ge : α → α → Bool) (hge : GeOK ge) (s₀ : St α)
    (h : List (Eval α)) (k : Nat) :
    let s := run ge (reset s₀) (h.take k)
    ((∀ e ∈ h.take k, e.finite = false) ∧ s.file = s₀.file) ∨
    (∃ e ∈ h.take k, e.finite = true ∧ s.file = some e.x ∧
        ∀ q ∈ h.take k, q.finite = true → ge e.f q.f = true) := by
  rcases file_is_best ge hge s₀ (h.take k) with h1 | ⟨e, he, hf, hfile, _, hall⟩
  · exact Or.inl ⟨h1.1, h1.2.1⟩
  · exact Or.inr ⟨e, he, hf, hfile, hall⟩

/-- **Re-reading a line gives back name and value** (names without leading or trailing
blanks; value tokens without '=' and blanks, as printed by Python for a float).  Names
may contain '='. -/
theorem parse_render (n v : List Char) (hn : NameOK n) (hv : ValueOK v) :
    parseLine (renderLine n v) = some (n, v) :=
  IterFile.parseLine_renderLine n v hn hv

/-- **A later estimation starts from the saved values**: names in the file take the
file's value, other names keep their starting value. -/
theorem restart_uses_file (inits entries : List (String × String)) (n v : String)
    (hn : (n, v) ∈ inits) :
    (match entries.reverse.lookup n with
      | some w => (n, w)
      | none => (n, v)) ∈ restart inits (some entries) := by
  unfold restart
  simp only [List.mem_map]
  exact ⟨(n, v), hn, rfl⟩

theorem restart_no_file (inits : List (String × String)) : restart inits none = inits := rfl

/-- **Crash safety of the write protocol, every crash point.**  If the process stops
after any number `k` of primitive file operations of one save, the iteration file is
either exactly what it was before the save (possibly absent) or the complete new
content. -/
theorem crash_safe (d : Dir) (tmp file : String) (chunks : List String) (hne : tmp ≠ file)
    (k : Nat) :
    (crash d (protocol tmp file chunks) k).get file = d.get file ∨
    (crash d (protocol tmp file chunks) k).get file = some (concat chunks) :=
  IterFile.crash_protocol d tmp file chunks hne k

/-- The full statement is false for the protocol used before the repair (rewrite in
place): a stop after the first of two lines leaves a partial file. -/
theorem in_place_unsafe :
    ∃ (d : Dir) (file : String) (chunks : List String) (k : Nat),
      (crash d (protocolInPlace file chunks) k).get file ≠ d.get file ∧
      (crash d (protocolInPlace file chunks) k).get file ≠ some (concat chunks) :=
  ⟨[("f", "a = 1\nb = 2\n")], "f", ["a = 3\n", "b = 4\n"], 2, by decide⟩

/-! ### sessions on one object: every entry point, every option combination, renames -/

/-- **Clause (b) on a whole session.**  After any sequence of derivative evaluations
(issued directly with any `scaled` flag, or by `check_derivatives`, the finite-difference
hessian, the optimiser) and renames of the object since the start of an estimation:
either no evaluation had a finite gradient and no file changed, or there is an evaluated
point with finite gradient, at least as good *on the data* as every evaluated point with
finite gradient, which is exactly the content of the file of the model name the object
had when that point was evaluated. -/
theorem session_best_in_its_file {α} (ge : α → α → Bool) (hge : GeOK ge) (s₀ : Sess α)
    (ops : List (Op α)) (hnr : NoReset ops) :
    let s := srun ge (sstep ge s₀ .reset) ops
    let seen := namedEvals s₀.name ops
    ((∀ p ∈ seen, p.2.finite = false) ∧ s.files = s₀.files ∧ s.best = none) ∨
    (∃ p ∈ seen, p.2.finite = true ∧ s.files.get p.1 = some p.2.x ∧ s.best = some p.2.f ∧
        ∀ q ∈ seen, q.2.finite = true → ge p.2.f q.2.f = true) :=
  IterFile.srun_inv ge hge.total hge.trans s₀ ops hnr

/-- **The scaled flag is irrelevant for the file; without renames a session is a history.**
Whatever the `scaled` flags of the calls, the file of the current name and the marker
after a sequence of evaluations are those of the single-file machine `run` fed with the
log likelihoods on the data, so `file_is_best` / `every_prefix_is_best` apply to
sessions that mix scaled and unscaled calls. -/
theorem session_scaled_irrelevant {α} (ge : α → α → Bool) (s : Sess α)
    (l : List (Eval α × Bool)) :
    let s' := srun ge s (l.map fun p => Op.eval p.1 p.2)
    let t := run ge ⟨s.best, s.files.get s.name⟩ (l.map (·.1))
    s'.name = s.name ∧ s'.best = t.best ∧ s'.files.get s.name = t.file :=
  IterFile.srun_evals_as_run ge l s

/-- **File name from the model name: an evaluation touches only the file of the current
name.**  The files of all other model names are what they were. -/
theorem session_touches_only_current_name {α} (ge : α → α → Bool) (s : Sess α) (e : Eval α)
    (sc : Bool) (n : String) (hn : n ≠ s.name) :
    (sstep ge s (.eval e sc)).files.get n = s.files.get n :=
  IterFile.sstep_eval_frame ge s e sc n hn

/-- **A new best point is saved under the current name**, whatever the flag of the call
and whatever names the object had before. -/
theorem session_new_best_saved {α} (ge : α → α → Bool) (hge : GeOK ge) (s : Sess α)
    (e : Eval α) (sc : Bool) (hfin : e.finite = true)
    (hbest : ∀ b, s.best = some b → ge e.f b = true) :
    (sstep ge s (.eval e sc)).files.get s.name = some e.x := by
  have hrefl : ge e.f e.f = true := by rcases hge.total e.f e.f with h | h <;> exact h
  have hs : saves ge s.best e = true := by
    rw [IterFile.saves_finite ge _ e hfin]
    cases hb : s.best with
    | none => exact hrefl
    | some b => exact hbest b hb
  show (if saves ge s.best e then s.files.set s.name e.x else s.files).get s.name = _
  rw [hs]
  exact IterFile.files_get_set_same _ _ _

/-- renames and resets never touch a file -/
theorem session_rename_keeps_files {α} (ge : α → α → Bool) (s : Sess α) (n : String) :
    (sstep ge s (.rename n)).files = s.files ∧ (sstep ge s (.reset : Op α)).files = s.files :=
  ⟨rfl, rfl⟩

/-! ### non-vacuity -/

def geInt (a b : Int) : Bool := decide (a ≥ b)

theorem geInt_ok : GeOK geInt :=
  ⟨fun a b => by simp only [geInt, decide_eq_true_eq]; omega,
   fun a b c => by simp only [geInt, decide_eq_true_eq]; omega⟩

/-- the history of finding F08 (f = −200, −26, −56 in hundredths): the file must hold
the −26 point, not the last one -/
example : (run geInt (reset ⟨none, none⟩)
    [⟨["0"], -200, true⟩, ⟨["1"], -26, true⟩, ⟨["2"], -56, true⟩, ⟨["3"], 5, false⟩]).file
    = some ["1"] := by decide

example : NameOK "b=1 x".toList ∧ ValueOK "-1.5e-07".toList := by
  unfold NameOK ValueOK; decide
example : parseLine (renderLine "b=1 x".toList "-1.5e-07".toList)
    = some ("b=1 x".toList, "-1.5e-07".toList) := by decide

/-- a session that mixes flags and names (f in hundredths): a scaled poor point under the
default name, a rename, an unscaled good point, a scaled point in between; the good point
is in the file of the new name, the file of the old name keeps the first point -/
example : (srun geInt (sstep geInt ⟨"default", none, []⟩ .reset)
    [.eval ⟨["0"], -51392, true⟩ true, .rename "final", .eval ⟨["1"], -14060, true⟩ false,
     .eval ⟨["2"], -16446, true⟩ true, .eval ⟨["3"], 7, false⟩ false]).files
    = [("final", ["1"]), ("default", ["0"])] := by decide

example : NoReset ([.eval ⟨["0"], -5, true⟩ true, .rename "b", .eval ⟨["1"], -4, true⟩ false] : List (Op Int)) := by
  simp [NoReset]

end C15
