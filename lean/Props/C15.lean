/-
C15 — the saved-iteration file is always a sound restart point.
Property theorems only (helper lemmas in Proofs/IterFile.lean).
-/
import Model.IterFile
import Proofs.IterFile

open IterFile

namespace C15

/-- Python's `>=` on the likelihood values that occur (no NaN): total, transitive. -/
structure GeOK {α} (ge : α → α → Bool) : Prop where
  total : ∀ a b, ge a b = true ∨ ge b a = true
  trans : ∀ a b c, ge a b = true → ge b c = true → ge a c = true

/-- **Clause (a)+(b), every history.**  After any sequence of evaluations issued after
the start of an estimation (`reset`), either no evaluation had a finite gradient and
the file is what it was before, or the file holds exactly the values of an evaluated
point with finite gradient whose likelihood is ≥ that of every evaluated point with
finite gradient (improving, worsening, tied and non-finite steps in any order). -/
theorem file_is_best {α} (ge : α → α → Bool) (hge : GeOK ge) (s₀ : St α) (h : List (Eval α)) :
    let s := run ge (reset s₀) h
    ((∀ e ∈ h, e.finite = false) ∧ s.file = s₀.file ∧ s.best = none) ∨
    (∃ e ∈ h, e.finite = true ∧ s.file = some e.x ∧ s.best = some e.f ∧
        ∀ q ∈ h, q.finite = true → ge e.f q.f = true) :=
  IterFile.run_inv ge hge.total hge.trans s₀ h

/-- **A restart never begins below the original start**: when the first evaluation of
the estimation is the starting point (finite), the point in the file is at least as
good. -/
theorem never_below_start {α} (ge : α → α → Bool) (hge : GeOK ge) (s₀ : St α)
    (e₀ : Eval α) (h : List (Eval α)) (hfin : e₀.finite = true) :
    ∃ e ∈ e₀ :: h, e.finite = true ∧ (run ge (reset s₀) (e₀ :: h)).file = some e.x ∧
      ge e.f e₀.f = true := by
  rcases file_is_best ge hge s₀ (e₀ :: h) with h1 | ⟨e, he, hf, hfile, _, hall⟩
  · have := h1.1 e₀ (List.mem_cons_self); rw [hfin] at this; cases this
  · exact ⟨e, he, hf, hfile, hall e₀ (List.mem_cons_self) hfin⟩

/-- **Every intermediate file** (what is on disk after each call) is also the best so
far: the statement above applied to every prefix of the history. -/
theorem every_prefix_is_best {α} (ge : α → α → Bool) (hge : GeOK ge) (s₀ : St α)
    (h : List (Eval α)) (k : Nat) :
    let s := run ge (reset s₀) (h.take k)
    ((∀ e ∈ h.take k, e.finite = false) ∧ s.file = s₀.file) ∨
    (∃ e ∈ h.take k, e.finite = true ∧ s.file = some e.x ∧
        ∀ q ∈ h.take k, q.finite = true → ge e.f q.f = true) := by
  rcases file_is_best ge hge s₀ (h.take k) with h1 | ⟨e, he, hf, hfile, _, hall⟩
  · exact Or.inl ⟨h1.1, h1.2.1⟩
  · exact Or.inr ⟨e, he, hf, hfile, hall⟩

/-- **Re-reading a line gives back name and value** (names without leading or trailing
blanks; value tokens without '=' and blanks, as printed by Python for a float).  Names
may contain '='. -/
theorem parse_render (n v : List Char) (hn : NameOK n) (hv : ValueOK v) :
    parseLine (renderLine n v) = some (n, v) :=
  IterFile.parseLine_renderLine n v hn hv

/-- **A later estimation starts from the saved values**: names in the file take the
file's value, other names keep their starting value. -/
theorem restart_uses_file (inits entries : List (String × String)) (n v : String)
    (hn : (n, v) ∈ inits) :
    (match entries.reverse.lookup n with
      | some w => (n, w)
      | none => (n, v)) ∈ restart inits (some entries) := by
  unfold restart
  simp only [List.mem_map]
  exact ⟨(n, v), hn, rfl⟩

theorem restart_no_file (inits : List (String × String)) : restart inits none = inits := rfl

/-- **Crash safety of the write protocol, every crash point.**  If the process stops
after any number `k` of primitive file operations of one save, the iteration file is
either exactly what it was before the save (possibly absent) or the complete new
content. -/
theorem crash_safe (d : Dir) (tmp file : String) (chunks : List String) (hne : tmp ≠ file)
    (k : Nat) :
    (crash d (protocol tmp file chunks) k).get file = d.get file ∨
    (crash d (protocol tmp file chunks) k).get file = some (concat chunks) :=
  IterFile.crash_protocol d tmp file chunks hne k

/-- The full statement is false for the protocol used before the repair (rewrite in
place): a stop after the first of two lines leaves a partial file. -/
theorem in_place_unsafe :
    ∃ (d : Dir) (file : String) (chunks : List String) (k : Nat),
      (crash d (protocolInPlace file chunks) k).get file ≠ d.get file ∧
      (crash d (protocolInPlace file chunks) k).get file ≠ some (concat chunks) :=
  ⟨[("f", "a = 1\nb = 2\n")], "f", ["a = 3\n", "b = 4\n"], 2, by decide⟩

/-! ### the write protocol with user-space buffers (the primitives recorded from the real code) -/

/-- **Crash safety with buffers, every crash point, the shape the code uses.**  Primitives as the
harness records them from the real file object: `write` only fills the buffer of the handle, the
text reaches the file at `close`; `os.replace` comes after the `with` block.  A process stopped
after any number `k` of primitives (its buffers are lost) leaves the iteration file exactly as it
was (possibly absent) or with the complete new content. -/
theorem crash_safe_buffered (d : Dir) (tmp file : String) (chunks : List String) (hne : tmp ≠ file)
    (k : Nat) :
    (crashB d (protocolB tmp file chunks) k).get file = d.get file ∨
    (crashB d (protocolB tmp file chunks) k).get file = some (concat chunks) :=
  IterFile.crashB_protocol d tmp file chunks hne k

/-- **Nothing is published before the rename**, whatever is done to the temporary file: any
sequence of open / write / flush / close primitives on `tmp` only (in any order, any number of
explicit flushes), stopped anywhere, leaves the iteration file untouched. -/
theorem crash_before_publish_keeps_file (d : Dir) (tmp file : String) (hne : tmp ≠ file)
    (ops : List BOp) (hops : ∀ op ∈ ops, IterFile.OnlyTmpB tmp op) (k : Nat) :
    (crashB d ops k).get file = d.get file :=
  IterFile.applyBs_frame tmp file hne (ops.take k) ⟨d, []⟩ (IterFile.goodHs_nil tmp d)
    (fun op h => hops op (List.mem_of_mem_take h))

/-- **Every protocol of the family "anything on the temporary file, then one rename as the last
primitive"** (the decision `tmpThenReplace` the driver takes on a recorded trace): a stop before the
last primitive leaves the iteration file untouched, so the only other state a stop can leave is
the state after the complete save. -/
theorem tmp_then_replace_safe (d : Dir) (tmp file : String) (ops : List BOp)
    (h : tmpThenReplace ops tmp file = true) (k : Nat) (hk : k < ops.length) :
    (crashB d ops k).get file = d.get file := by
  simp only [tmpThenReplace, Bool.and_eq_true, bne_iff_ne, ne_eq, List.all_eq_true] at h
  obtain ⟨⟨hne, _⟩, hall⟩ := h
  have htake : ops.take k = ops.dropLast.take k := by
    rw [List.dropLast_eq_take, List.take_take]
    congr 1; omega
  unfold crashB
  rw [htake]
  exact IterFile.applyBs_frame tmp file hne (ops.dropLast.take k) ⟨d, []⟩ (IterFile.goodHs_nil tmp d)
    (fun op hop => IterFile.onlyTmpOp_sound tmp op (hall op (List.mem_of_mem_take hop)))

/-- **The full statement is false for the shape "rename inside the `with` block"** (the temporary
file is published before it is flushed and closed): for every non-empty text and every previous
state of the iteration file other than the empty file, a stop right after the rename leaves a
published file that is neither the old one nor the complete new one — it is empty. -/
theorem replace_before_close_unsafe (d : Dir) (tmp file : String) (chunks : List String)
    (hne : tmp ≠ file) (htext : concat chunks ≠ "") (hold : d.get file ≠ some "") :
    ∃ k, (crashB d (protocolReplaceBeforeClose tmp file chunks) k).get file ≠ d.get file ∧
         (crashB d (protocolReplaceBeforeClose tmp file chunks) k).get file ≠ some (concat chunks) := by
  refine ⟨chunks.length + 2, ?_, ?_⟩
  · rw [IterFile.crashB_replace_before_close d tmp file chunks hne]; exact fun h => hold h.symm
  · rw [IterFile.crashB_replace_before_close d tmp file chunks hne]
    intro h; exact htext (Option.some.inj h).symm

/-- **The decision the driver takes on a recorded trace is the statement**: when the model finds no
unsafe crash point in a recorded list of primitives, every stop (any `k`) leaves the old or the
complete new file. -/
theorem unsafePoints_nil_safe (d : Dir) (ops : List BOp) (file new : String)
    (h : unsafePoints d ops file new = []) (k : Nat) :
    (crashB d ops k).get file = d.get file ∨ (crashB d ops k).get file = some new := by
  have hk : ∀ j, j ≤ ops.length →
      (crashB d ops j).get file = d.get file ∨ (crashB d ops j).get file = some new := by
    intro j hj
    have hmem : j ∈ List.range (ops.length + 1) := List.mem_range.mpr (by omega)
    have := (List.filter_eq_nil_iff.mp h) j hmem
    have himp : ¬(crashB d ops j).get file = d.get file → (crashB d ops j).get file = some new := by
      simpa using this
    by_cases hc : (crashB d ops j).get file = d.get file
    · exact Or.inl hc
    · exact Or.inr (himp hc)
  by_cases hle : k ≤ ops.length
  · exact hk k hle
  · have e1 : ops.take k = ops.take ops.length := by
      rw [List.take_of_length_le (by omega), List.take_length]
    have : crashB d ops k = crashB d ops ops.length := by unfold crashB; rw [e1]
    rw [this]; exact hk _ (Nat.le_refl _)

/-! ### sessions on one object: every entry point, every option combination, renames -/

/-- **Clause (b) on a whole session.**  After any sequence of derivative evaluations
(issued directly with any `scaled` flag, or by `check_derivatives`, the finite-difference
hessian, the optimiser) and renames of the object since the start of an estimation:
either no evaluation had a finite gradient and no file changed, or there is an evaluated
point with finite gradient, at least as good *on the data* as every evaluated point with
finite gradient, which is exactly the content of the file of the model name the object
had when that point was evaluated. -/
theorem session_best_in_its_file {α} (ge : α → α → Bool) (hge : GeOK ge) (s₀ : Sess α)
    (ops : List (Op α)) (hnr : NoReset ops) :
    let s := srun ge (sstep ge s₀ .reset) ops
    let seen := namedEvals s₀.name ops
    ((∀ p ∈ seen, p.2.finite = false) ∧ s.files = s₀.files ∧ s.best = none) ∨
    (∃ p ∈ seen, p.2.finite = true ∧ s.files.get p.1 = some p.2.x ∧ s.best = some p.2.f ∧
        ∀ q ∈ seen, q.2.finite = true → ge p.2.f q.2.f = true) :=
  IterFile.srun_inv ge hge.total hge.trans s₀ ops hnr

/-- **The scaled flag is irrelevant for the file; without renames a session is a history.**
Whatever the `scaled` flags of the calls, the file of the current name and the marker
after a sequence of evaluations are those of the single-file machine `run` fed with the
log likelihoods on the data, so `file_is_best` / `every_prefix_is_best` apply to
sessions that mix scaled and unscaled calls. -/
theorem session_scaled_irrelevant {α} (ge : α → α → Bool) (s : Sess α)
    (l : List (Eval α × Bool)) :
    let s' := srun ge s (l.map fun p => Op.eval p.1 p.2)
    let t := run ge ⟨s.best, s.files.get s.name⟩ (l.map (·.1))
    s'.name = s.name ∧ s'.best = t.best ∧ s'.files.get s.name = t.file :=
  IterFile.srun_evals_as_run ge l s

/-- **File name from the model name: an evaluation touches only the file of the current
name.**  The files of all other model names are what they were. -/
theorem session_touches_only_current_name {α} (ge : α → α → Bool) (s : Sess α) (e : Eval α)
    (sc : Bool) (n : String) (hn : n ≠ s.name) :
    (sstep ge s (.eval e sc)).files.get n = s.files.get n :=
  IterFile.sstep_eval_frame ge s e sc n hn

/-- **A new best point is saved under the current name**, whatever the flag of the call
and whatever names the object had before. -/
theorem session_new_best_saved {α} (ge : α → α → Bool) (hge : GeOK ge) (s : Sess α)
    (e : Eval α) (sc : Bool) (hfin : e.finite = true)
    (hbest : ∀ b, s.best = some b → ge e.f b = true) :
    (sstep ge s (.eval e sc)).files.get s.name = some e.x := by
  have hrefl : ge e.f e.f = true := by rcases hge.total e.f e.f with h | h <;> exact h
  have hs : saves ge s.best e = true := by
    rw [IterFile.saves_finite ge _ e hfin]
    cases hb : s.best with
    | none => exact hrefl
    | some b => exact hbest b hb
  show (if saves ge s.best e then s.files.set s.name e.x else s.files).get s.name = _
  rw [hs]
  exact IterFile.files_get_set_same _ _ _

/-- renames and resets never touch a file -/
theorem session_rename_keeps_files {α} (ge : α → α → Bool) (s : Sess α) (n : String) :
    (sstep ge s (.rename n)).files = s.files ∧ (sstep ge s (.reset : Op α)).files = s.files :=
  ⟨rfl, rfl⟩

/-- **Estimate, rename, estimate**: after the marker was reset (`estimate()`), the first evaluation
with a finite gradient is saved in the file of the name the object has *now*, whatever happened
before the reset (other names, better points under other names). -/
theorem session_first_after_reset_saved {α} (ge : α → α → Bool) (hge : GeOK ge) (s : Sess α)
    (e : Eval α) (sc : Bool) (hfin : e.finite = true) :
    (sstep ge (sstep ge s .reset) (.eval e sc)).files.get s.name = some e.x :=
  session_new_best_saved ge hge (sstep ge s .reset) e sc hfin (fun b hb => by cases hb)

/-- **Bootstrapping** (repaired behaviour, finding F-C15-boot): an evaluation on a resampled data
set changes neither the files nor the marker nor the name. -/
theorem session_bootstrap_keeps_everything {α} (ge : α → α → Bool) (s : Sess α) (e : Eval α) :
    sstep ge s (.bootEval e) = s := rfl

/-- **File name from model name: different models, different files** (names that differ by one
special character, by case, by a blank or by a look-alike included): the map is injective, so the
per-name files of the session / world model are distinct files of the directory. -/
theorem file_name_injective (a b : String) (h : iterFileName a = iterFileName b) : a = b := by
  have h2 := congrArg String.toList h
  simp only [iterFileName, String.toList_append] at h2
  have h3 := List.append_cancel_left (List.append_cancel_right h2)
  exact String.toList_inj.mp h3

example : iterFileName "mnl:time" = "__mnl:time.iter" ∧ iterFileName "mnl:time" ≠ iterFileName "mnl_time" := by decide

/-! ### several objects in one working directory -/

/-- **Whatever the number of objects and however their operations interleave** (objects sharing a
model name included), every iteration file is either what it was at the beginning or holds exactly
the point of one evaluation with finite gradient issued by one of the objects. -/
theorem world_files_are_evaluated_points {α} (ge : α → α → Bool) (w : World α)
    (ops : List (Nat × Op α)) (n : String) :
    (wrun ge w ops).files.get n = w.files.get n ∨
    ∃ p ∈ ops, ∃ e sc, p.2 = .eval e sc ∧ e.finite = true ∧ (wrun ge w ops).files.get n = some e.x :=
  IterFile.wrun_files ge ops w n

/-- an operation on one object leaves the name and the marker of every other object as they were -/
theorem world_other_objects_untouched {α} (ge : α → α → Bool) (w : World α) (i j : Nat) (op : Op α)
    (hij : j ≠ i) : (wstep ge w (i, op)).objs[j]? = w.objs[j]? :=
  IterFile.wstep_other ge w i j op hij

/-- an operation on object `i` is the session step of that object on the shared files, so all the
`session_*` theorems apply to every object of the directory -/
theorem world_step_is_session_step {α} (ge : α → α → Bool) (w : World α) (i : Nat) (op : Op α)
    (o : Obj α) (ho : w.objs[i]? = some o) :
    let s' := sstep ge ⟨o.name, o.best, w.files⟩ op
    (wstep ge w (i, op)).files = s'.files ∧ (wstep ge w (i, op)).objs[i]? = some ⟨s'.name, s'.best⟩ :=
  IterFile.wstep_self ge w i op o ho

/-! ### non-vacuity -/

def geInt (a b : Int) : Bool := decide (a ≥ b)

theorem geInt_ok : GeOK geInt :=
  ⟨fun a b => by simp only [geInt, decide_eq_true_eq]; omega,
   fun a b c => by simp only [geInt, decide_eq_true_eq]; omega⟩

/-- the history of finding F08 (f = −200, −26, −56 in hundredths): the file must hold
the −26 point, not the last one -/
example : (run geInt (reset ⟨none, none⟩)
    [⟨["0"], -200, true⟩, ⟨["1"], -26, true⟩, ⟨["2"], -56, true⟩, ⟨["3"], 5, false⟩]).file
    = some ["1"] := by decide

example : NameOK "b=1 x".toList ∧ ValueOK "-1.5e-07".toList := by
  unfold NameOK ValueOK; decide
example : parseLine (renderLine "b=1 x".toList "-1.5e-07".toList)
    = some ("b=1 x".toList, "-1.5e-07".toList) := by decide

/-- a session that mixes flags and names (f in hundredths): a scaled poor point under the
default name, a rename, an unscaled good point, a scaled point in between; the good point
is in the file of the new name, the file of the old name keeps the first point -/
example : (srun geInt (sstep geInt ⟨"default", none, []⟩ .reset)
    [.eval ⟨["0"], -51392, true⟩ true, .rename "final", .eval ⟨["1"], -14060, true⟩ false,
     .eval ⟨["2"], -16446, true⟩ true, .eval ⟨["3"], 7, false⟩ false]).files
    = [("final", ["1"]), ("default", ["0"])] := by decide

example : NoReset ([.eval ⟨["0"], -5, true⟩ true, .rename "b", .eval ⟨["1"], -4, true⟩ false] : List (Op Int)) := by
  simp [NoReset]

/-- the protocol of the code on a two-line file over an existing one: no unsafe crash point; the
same statements with the rename inside the `with` block: unsafe exactly after the rename (k = 6),
although the final state is the complete file (nothing shows when the call returns normally);
rewriting in place: unsafe after the truncation -/
example : unsafePoints [("f", "a = 1\nb = 2\n")] (protocolB "f.tmp" "f" ["a = 3", "\n", "b = 4", "\n"])
    "f" "a = 3\nb = 4\n" = [] := by decide
example : unsafePoints [("f", "a = 1\nb = 2\n")]
    (protocolReplaceBeforeClose "f.tmp" "f" ["a = 3", "\n", "b = 4", "\n"]) "f" "a = 3\nb = 4\n" = [6] := by decide
example : (crashB [("f", "a = 1\nb = 2\n")]
    (protocolReplaceBeforeClose "f.tmp" "f" ["a = 3", "\n", "b = 4", "\n"]) 7).get "f" = some "a = 3\nb = 4\n" := by decide
example : unsafePoints [("f", "a = 1\n")] (protocolInPlaceB "f" ["a = 3", "\n"]) "f" "a = 3\n" = [1, 2, 3] := by decide
example : tmpThenReplace [.openTrunc "t", .write "t" "a = 3\n", .flush "t", .write "t" "b = 4\n", .flush "t",
    .close "t", .replace "t" "f"] "t" "f" = true := by decide
example : tmpThenReplace (protocolReplaceBeforeClose "t" "f" ["a = 3\n"]) "t" "f" = false := by decide
example : concat ["a = 3", "\n"] ≠ "" ∧ Dir.get [("f", "a = 1\n")] "f" ≠ some "" := by decide
example : ∀ op ∈ [BOp.openTrunc "t", .write "t" "x", .flush "t", .write "t" "y", .close "t"],
    IterFile.OnlyTmpB "t" op := by
  intro op h
  simp only [List.mem_cons, List.not_mem_nil, or_false] at h
  rcases h with rfl | rfl | rfl | rfl | rfl <;> rfl

/-- a saved value that is exactly 0.0 replaces a non-zero default -/
example : restart [("a", "1.0"), ("b", "0.5")] (some [("a", "0.0"), ("b", "-0.0")])
    = [("a", "0.0"), ("b", "-0.0")] := by decide

/-- two objects sharing the model name "m" and a third one: the second object overwrites the file
with its first (worse) point — its own marker is empty —, the first object then saves a point that
is better than its own best; the bootstrap evaluation changes nothing; estimate → rename →
estimate on the third object -/
example : (wrun geInt ⟨[⟨"m", none⟩, ⟨"m", none⟩, ⟨"c", none⟩], []⟩
    [(0, .eval ⟨["0"], -10, true⟩ false), (1, .eval ⟨["1"], -50, true⟩ true),
     (0, .eval ⟨["2"], -20, true⟩ false), (0, .eval ⟨["3"], -5, true⟩ false),
     (1, .bootEval ⟨["4"], -1, true⟩),
     (2, .reset), (2, .eval ⟨["5"], -7, true⟩ false), (2, .rename "d"), (2, .reset),
     (2, .eval ⟨["6"], -9, true⟩ false)]).files
    = [("d", ["6"]), ("c", ["5"]), ("m", ["3"])] := by decide

end C15
