/-
C15 — the saved-iteration file is always a sound restart point.
Property theorems only (helper lemmas in Proofs/IterFile.lean).
-/
import Model.IterFile
import Proofs.IterFile

open IterFile

namespace C15

/-- Python's `>=` on the likelihood values that occur (no NaN): total, transitive. -/
structure GeOK {α} (ge : α → α → Bool) : Prop where
  total : ∀ a b, ge a b = true ∨ ge b a = true
  trans : ∀ a b c, ge a b = true → ge b c = true → ge a c = true

/-- **Clause (a)+(b), every history.**  After any sequence of evaluations issued after
the start of an estimation (`reset`), either no evaluation had a finite gradient and
the file is what it was before, or the file holds exactly the values of an evaluated
point with finite gradient whose likelihood is ≥ that of every evaluated point with
finite gradient (improving, worsening, tied and non-finite steps in any order). -/
theorem file_is_best {α} (ge : α → α → Bool) (hge : GeOK ge) (s₀ : St α) (h : List (Eval α)) :
    let s := run ge (reset s₀) h
    ((∀ e ∈ h, e.finite = false) ∧ s.file = s₀.file ∧ s.best = none) ∨
    (∃ e ∈ h, e.finite = true ∧ s.file = some e.x ∧ s.best = some e.f ∧
        ∀ q ∈ h, q.finite = true → ge e.f q.f = true) :=
  IterFile.run_inv ge hge.total hge.trans s₀ h

/-- **A restart never begins below the original start**: when the first evaluation of
the estimation is the starting point (finite), the point in the file is at least as
good. -/
theorem never_below_start {α} (ge : α → α → Bool) (hge : GeOK ge) (s₀ : St α)
    (e₀ : Eval α) (h : List (Eval α)) (hfin : e₀.finite = true) :
    ∃ e ∈ e₀ :: h, e.finite = true ∧ (run ge (reset s₀) (e₀ :: h)).file = some e.x ∧
      ge e.f e₀.f = true := by
  rcases file_is_best ge hge s₀ (e₀ :: h) with h1 | ⟨e, he, hf, hfile, _, hall⟩
  · have := h1.1 e₀ (List.mem_cons_self); rw [hfin] at this; cases this
  · exact ⟨e, he, hf, hfile, hall e₀ (List.mem_cons_self) hfin⟩

/-- **Every intermediate file** (what is on disk after each call) is also the best so
far: the statement above applied to every prefix of the history. -/
theorem every_prefix_is_best {α} (ge : α → α → Bool) (hge : GeOK ge) (s₀ : St α)
    (h : List (Eval α)) (k : Nat) :
    let s := run ge (reset s₀) (h.take k)
    ((∀ e ∈ h.take k, e.finite = false) ∧ s.file = s₀.file) ∨
    (∃ e ∈ h.take k, e.finite = true ∧ s.file = some e.x ∧
        ∀ q ∈ h.take k, q.finite = true → ge e.f q.f = true) := by
  rcases file_is_best ge hge s₀ (h.take k) with h1 | ⟨e, he, hf, hfile, _, hall⟩
  · exact Or.inl ⟨h1.1, h1.2.1⟩
  · exact Or.inr ⟨e, he, hf, hfile, hall⟩

/-- **Re-reading a line gives back name and value** (names without leading or trailing
blanks; value tokens without '=' and blanks, as printed by Python for a float).  Names
may contain '='. -/
theorem parse_render (n v : List Char) (hn : NameOK n) (hv : ValueOK v) :
    parseLine (renderLine n v) = some (n, v) :=
  IterFile.parseLine_renderLine n v hn hv

/-- **A later estimation starts from the saved values**: names in the file take the
file's value, other names keep their starting value. -/
theorem restart_uses_file (inits entries : List (String × String)) (n v : String)
    (hn : (n, v) ∈ inits) :
    (match entries.reverse.lookup n with
      | some w => (n, w)
      | none => (n, v)) ∈ restart inits (some entries) := by
  unfold restart
  simp only [List.mem_map]
  exact ⟨(n, v), hn, rfl⟩

theorem restart_no_file (inits : List (String × String)) : restart inits none = inits := rfl

/-- **Crash safety of the write protocol, every crash point.**  If the process stops
after any number `k` of primitive file operations of one save, the iteration file is
either exactly what it was before the save (possibly absent) or the complete new
content. -/
theorem crash_safe (d : Dir) (tmp file : String) (chunks : List String) (hne : tmp ≠ file)
    (k : Nat) :
    (crash d (protocol tmp file chunks) k).get file = d.get file ∨
    (crash d (protocol tmp file chunks) k).get file = some (concat chunks) :=
  IterFile.crash_protocol d tmp file chunks hne k

/-- The full statement is false for the protocol used before the repair (rewrite in
place): a stop after the first of two lines leaves a partial file. -/
theorem in_place_unsafe :
    ∃ (d : Dir) (file : String) (chunks : List String) (k : Nat),
      (crash d (protocolInPlace file chunks) k).get file ≠ d.get file ∧
      (crash d (protocolInPlace file chunks) k).get file ≠ some (concat chunks) :=
  ⟨[("f", "a = 1\nb = 2\n")], "f", ["a = 3\n", "b = 4\n"], 2, by decide⟩

/-! ### non-vacuity -/

def geInt (a b : Int) : Bool := decide (a ≥ b)

theorem geInt_ok : GeOK geInt :=
  ⟨fun a b => by simp only [geInt, decide_eq_true_eq]; omega,
   fun a b c => by simp only [geInt, decide_eq_true_eq]; omega⟩

/-- the history of finding F08 (f = −200, −26, −56 in hundredths): the file must hold
the −26 point, not the last one -/
example : (run geInt (reset ⟨none, none⟩)
    [⟨["0"], -200, true⟩, ⟨["1"], -26, true⟩, ⟨["2"], -56, true⟩, ⟨["3"], 5, false⟩]).file
    = some ["1"] := by decide

example : NameOK "b=1 x".toList ∧ ValueOK "-1.5e-07".toList := by
  unfold NameOK ValueOK; decide
example : parseLine (renderLine "b=1 x".toList "-1.5e-07".toList)
    = some ("b=1 x".toList, "-1.5e-07".toList) := by decide

end C15
