/-
C16 — catalogs span the product of their controllers; operators stay inside it.
Property theorems only (model: Model/Catalog.lean, helper lemmas: Proofs/Catalog.lean).

Reading guide.  `central e = .ok sp` : the expression `e` is accepted and `sp` is the tuple
of controllers `CentralController(e)` holds (`central_wf` shows it is well formed and governs
every catalog of `e`, so all theorems below apply to every accepted expression).
`ValidCfg sp cfg` : `cfg` lists the controllers of `sp`, each with one of its specifications.
`St` : current index of every controller.  All statements quantify over all expressions /
spaces / configurations / steps in ℤ / histories; none is proved by enumeration.
-/
import Model.Catalog
import Proofs.Catalog
import Model.CatalogBuild
import Proofs.CatalogBuild

open Cat

namespace C16

/-- **Every accepted expression has a well-formed space** (controllers sorted by name, one
per name, non-empty duplicate-free specification lists, no reserved character in a name)
that governs each of its catalogs with exactly the catalog's member names. -/
theorem central_wf (e : Expr) (sp : Space) (h : central e = .ok sp) :
    SpaceWF sp ∧ e.okFor sp = true :=
  central_ok h

/-- **Count**: the enumeration the code performs (cartesian product of the per-controller
codes, joined with ';', every identifier converted back by `from_string`) succeeds and has
exactly Π |specifications| elements, which is also `number_of_configurations()`. -/
theorem count (sp : Space) (hwf : SpaceWF sp) :
    ∃ L, allConfigurations sp = .ok L ∧ L.length = prodNat (sp.map Controller.size) ∧
      numberOfConfigurations sp = L.length := by
  refine ⟨allCfgs sp, allConfigurations_eq hwf, allCfgs_length sp, ?_⟩
  unfold numberOfConfigurations
  have : sp.isEmpty = false := by
    cases sp with
    | nil => exact absurd rfl hwf.ne
    | cons _ _ => rfl
  rw [this, allCfgs_length]
  rfl

/-- **Each combination exactly once**: no configuration is enumerated twice. -/
theorem nodup (sp : Space) (hwf : SpaceWF sp) (L : List Config)
    (h : allConfigurations sp = .ok L) : L.Nodup := by
  rw [allConfigurations_eq hwf] at h
  cases h
  exact allCfgs_nodup hwf

/-- **Completeness**: a configuration is enumerated iff it gives every controller of the space
one of its specifications; in particular every choice function (an index below the size for
every controller) is enumerated. -/
theorem complete (sp : Space) (hwf : SpaceWF sp) (L : List Config)
    (h : allConfigurations sp = .ok L) :
    (∀ cfg, cfg ∈ L ↔ ValidCfg sp cfg) ∧
    (∀ choice : St, InRange sp choice → currentSels sp choice ∈ L) := by
  rw [allConfigurations_eq hwf] at h
  cases h
  refine ⟨fun cfg => mem_allCfgs sp cfg, fun choice hc => ?_⟩
  exact (mem_allCfgs sp _).mpr (currentSels_valid sp choice hc)

/-- below the cap `maximum_number_of_configurations` the set is enumerated, above it the
code stores `None` -/
theorem cap (sp : Space) (hwf : SpaceWF sp) (maxN : Nat) :
    setOfConfigurations sp maxN =
      .ok (if numberOfConfigurations sp > maxN then none else some (allCfgs sp)) := by
  unfold setOfConfigurations
  rw [allConfigurations_eq hwf]
  split <;> rfl

/-- **The identifier does not depend on the listing order**: two listings of the same
selections give the same `Configuration` (same sorted list, hence same identifier string),
or are both refused. -/
theorem id_order_independent (l₁ l₂ : List Sel) (h : l₁.Perm l₂) :
    mkConfig l₁ = mkConfig l₂ ∧ (mkConfig l₁).map stringId = (mkConfig l₂).map stringId := by
  have := mkConfig_perm h
  exact ⟨this, by rw [this]⟩

/-- **Round trip**, under the guard the separators force (`SelOK`: no ';' and no ':' inside
a controller or specification name): the identifier string of a non-empty configuration
converts back to the same configuration. -/
theorem id_roundtrip (l : List Sel) (cfg : Config) (hmk : mkConfig l = .ok cfg) (hne : l ≠ [])
    (hok : ∀ p ∈ l, SelOK p) : fromString (stringId cfg) = .ok cfg := by
  obtain ⟨hs, hp⟩ := mkConfig_sortedKeys hmk
  apply fromString_stringId cfg _ (fun p hp' => hok p (hp.mem_iff.mp hp')) hs
  intro e
  rw [e] at hp
  exact hne (List.perm_nil.mp hp.symm)

/-- **The identifier determines the configuration** (same guard). -/
theorem id_injective (l₁ l₂ : List Sel) (c₁ c₂ : Config) (h₁ : mkConfig l₁ = .ok c₁)
    (h₂ : mkConfig l₂ = .ok c₂) (ok₁ : ∀ p ∈ l₁, SelOK p) (ok₂ : ∀ p ∈ l₂, SelOK p)
    (hid : stringId c₁ = stringId c₂) : c₁ = c₂ := by
  have p₁ := (mkConfig_sortedKeys h₁).2
  have p₂ := (mkConfig_sortedKeys h₂).2
  by_cases e₁ : l₁ = []
  · by_cases e₂ : l₂ = []
    · subst e₁; subst e₂
      rw [List.perm_nil.mp p₁, List.perm_nil.mp p₂]
    · exfalso
      subst e₁
      have hc₁ : c₁ = [] := List.perm_nil.mp p₁
      have hc₂ : c₂ ≠ [] := fun e => e₂ (by rw [e] at p₂; exact List.perm_nil.mp p₂.symm)
      rw [hc₁] at hid
      exact stringId_ne_nil c₂ hc₂ hid.symm
  · by_cases e₂ : l₂ = []
    · exfalso
      subst e₂
      have hc₂ : c₂ = [] := List.perm_nil.mp p₂
      have hc₁ : c₁ ≠ [] := fun e => e₁ (by rw [e] at p₁; exact List.perm_nil.mp p₁.symm)
      rw [hc₂] at hid
      exact stringId_ne_nil c₁ hc₁ hid
    · have r₁ := id_roundtrip l₁ c₁ h₁ e₁ ok₁
      have r₂ := id_roundtrip l₂ c₂ h₂ e₂ ok₂
      rw [hid, r₂] at r₁
      cases r₁
      rfl

/-- The guard is necessary: without it two different configurations share an identifier and
the round trip fails (the separators are not escaped). -/
theorem id_not_injective_without_guard :
    ∃ c₁ c₂ : Config, mkConfig c₁ = .ok c₁ ∧ mkConfig c₂ = .ok c₂ ∧ c₁ ≠ c₂ ∧
      stringId c₁ = stringId c₂ ∧ fromString (stringId c₁) ≠ .ok c₁ :=
  ⟨[("c".toList, "a;d:e".toList)], [("c".toList, "a".toList), ("d".toList, "e".toList)],
    by decide, by decide, by decide, by decide, by decide⟩

/-- **Iteration visits every configuration exactly once**: the iterator configures each
element of the enumerated set in turn; the configurations read back are exactly the
enumerated list (which is duplicate free and complete by `nodup` and `complete`). -/
theorem iteration_visits_each_once (sp : Space) (hwf : SpaceWF sp) (L : List Config)
    (h : allConfigurations sp = .ok L) (st : St) : iterVisited sp st L = .ok L := by
  apply iterVisited_valid hwf
  intro cfg hc
  exact ((complete sp hwf L h).1 cfg).mp hc

/-- **Synchronisation**: after `configure_catalogs(cfg)` every catalog of the expression, at
any depth, selected or not, shows the member whose name is the selection of its controller;
catalogs governed by the same controller use the same index. -/
theorem select_sync (e : Expr) (sp : Space) (hc : central e = .ok sp) (cfg : Config)
    (hv : ValidCfg sp cfg) (st₀ st : St) (hs : setConfiguration sp st₀ cfg = .ok st) :
    ∀ x ∈ e.cats, st x.2.1 < x.2.2.names.length ∧
      getSelection cfg x.2.1 = some (x.2.2.names.getD (st x.2.1) []) := by
  obtain ⟨hwf, hok⟩ := central_ok hc
  obtain ⟨st', h1, h2, h3⟩ := setConfiguration_valid hwf st₀ hv
  rw [h1] at hs
  cases hs
  intro x hx
  have hf := Expr.cats_ok sp e hok x hx
  have hmem := (findCtrl_some sp _ _ hf).1
  refine ⟨h3 _ hmem, ?_⟩
  have := getSelection_currentSels sp st ⟨x.2.1, x.2.2.names⟩ (names_nodup hwf.sorted) hmem
  rw [h2] at this
  exact this

/-- **Selection = the formula written out by hand**: after `configure_catalogs(cfg)` the
expression obtained by delegating every catalog to its selected member is, syntactically,
the formula in which every catalog is replaced by the member named in `cfg`; it contains
no catalog, and the delegated evaluation is its value (for every environment). -/
theorem select_equals_handwritten (e : Expr) (sp : Space) (hc : central e = .ok sp)
    (cfg : Config) (hv : ValidCfg sp cfg) (st₀ st : St)
    (hs : setConfiguration sp st₀ cfg = .ok st) :
    ∃ e', e.hand cfg = some e' ∧ e.select st = some e' ∧ e'.plain = true ∧
      ∀ env, e.evSel st env = e'.ev env := by
  obtain ⟨hwf, hok⟩ := central_ok hc
  obtain ⟨st', h1, h2, h3⟩ := setConfiguration_valid hwf st₀ hv
  rw [h1] at hs
  cases hs
  have heq := Expr.select_eq_hand (names_nodup hwf.sorted) hwf.specs_nodup st h3 e hok
  rw [h2] at heq
  obtain ⟨e', he'⟩ := Expr.select_some st h3 e hok
  refine ⟨e', heq ▸ he', he', Expr.hand_plain cfg e e' (heq ▸ he'), fun env => ?_⟩
  rw [Expr.evSel_eq, he']
  rfl

/-- **`modify_controller` stays inside the controller** for every step, circular (wrap
around) or not (clamped). -/
theorem modify_controller_closed (c : Controller) (cur : Nat) (step : Int) (circular : Bool)
    (h : cur < c.size) :
    ∃ i r, modifyController c cur step circular = .ok (i, r) ∧ i < c.size :=
  modifyController_range c cur step circular h

/-- **Closure**: every neighbourhood operator (increase, decrease, pair in the four
directions, several random controllers) naming controllers of the space maps a valid
configuration to a valid configuration, for every step in ℤ, every previous state of the
controllers and every outcome of the random choices. -/
theorem closure (sp : Space) (hwf : SpaceWF sp) (st : St) (op : Op) (hop : OpNamesIn sp op)
    (cfg : Config) (hv : ValidCfg sp cfg) (step : Int) (choices : List Nat) :
    ∃ st' cfg', applyOp sp st op cfg step choices = .ok (st', cfg', retOf sp op step) ∧
      ValidCfg sp cfg' :=
  applyOp_closed hwf st op hop hv step choices

/-- all operators returned by `prepare_operators` name controllers of the space, so
`closure` applies to each of them -/
theorem closure_prepared (sp : Space) (hwf : SpaceWF sp) (st : St) (key : List Char) (op : Op)
    (hmem : (key, op) ∈ prepareOperators sp) (cfg : Config) (hv : ValidCfg sp cfg) (step : Int)
    (choices : List Nat) :
    ∃ st' cfg', applyOp sp st op cfg step choices = .ok (st', cfg', retOf sp op step) ∧
      ValidCfg sp cfg' :=
  applyOp_closed hwf st op (prepareOperators_names sp (key, op) hmem) hv step choices

/-- **Invariance over operator histories**: from a valid configuration, any sequence of
operator applications (any operators naming controllers of the space, any steps, any random
outcomes) never raises and ends in a valid configuration, which is one of the enumerated
ones. -/
theorem history_closed (sp : Space) (hwf : SpaceWF sp) (h : List (Op × Int × List Nat))
    (st : St) (cfg : Config) (hv : ValidCfg sp cfg) (hops : ∀ x ∈ h, OpNamesIn sp x.1) :
    ∃ st' cfg', runOps sp st cfg h = .ok (st', cfg') ∧ ValidCfg sp cfg' ∧ cfg' ∈ allCfgs sp := by
  obtain ⟨st', cfg', h1, h2⟩ := runOps_closed hwf h st cfg hv hops
  exact ⟨st', cfg', h1, h2, (mem_allCfgs sp cfg').mpr h2⟩

/-- **Increase then decrease by the same step is the identity** on valid configurations, for
every step in ℤ (wrap-around included) and whatever the controllers' states in between. -/
theorem inc_dec_inverse (sp : Space) (hwf : SpaceWF sp) (n : Name)
    (hn : n ∈ sp.map Controller.name) (cfg : Config) (hv : ValidCfg sp cfg) (k : Int)
    (st st' : St) (ch ch' : List Nat) :
    ∃ st₁ cfg₁ st₂, applyOp sp st (.increase n) cfg k ch = .ok (st₁, cfg₁, k) ∧
      applyOp sp st' (.decrease n) cfg₁ k ch' = .ok (st₂, cfg, k) := by
  obtain ⟨c, hc, rfl⟩ := List.mem_map.mp hn
  obtain ⟨sA, a1, a2, a3⟩ := applyOp_char hwf st (.increase c.name) hv k ch
  obtain ⟨st₁, m1, r1⟩ := modifyNamed_closed hwf a2 hn k
  simp only [modifyOp, m1] at a3
  have hv1 : ValidCfg sp (currentSels sp st₁) := currentSels_valid sp st₁ r1
  obtain ⟨sB, b1, b2, b3⟩ := applyOp_char hwf st' (.decrease c.name) hv1 k ch'
  obtain ⟨st₂, m2, _⟩ := modifyNamed_closed hwf b2 hn (-k)
  simp only [modifyOp, m2] at b3
  refine ⟨st₁, currentSels sp st₁, st₂, a3, ?_⟩
  rw [b3]
  have := modify_back hwf hc k st₁ st₂ ⟨sA, a1, a2, m1⟩ rfl ⟨sB, b1, b2, m2⟩ rfl
  rw [this]
  rfl

/-- the same in the other order: decrease then increase -/
theorem dec_inc_inverse (sp : Space) (hwf : SpaceWF sp) (n : Name)
    (hn : n ∈ sp.map Controller.name) (cfg : Config) (hv : ValidCfg sp cfg) (k : Int)
    (st st' : St) (ch ch' : List Nat) :
    ∃ st₁ cfg₁ st₂, applyOp sp st (.decrease n) cfg k ch = .ok (st₁, cfg₁, k) ∧
      applyOp sp st' (.increase n) cfg₁ k ch' = .ok (st₂, cfg, k) := by
  obtain ⟨c, hc, rfl⟩ := List.mem_map.mp hn
  obtain ⟨sA, a1, a2, a3⟩ := applyOp_char hwf st (.decrease c.name) hv k ch
  obtain ⟨st₁, m1, r1⟩ := modifyNamed_closed hwf a2 hn (-k)
  simp only [modifyOp, m1] at a3
  have hv1 : ValidCfg sp (currentSels sp st₁) := currentSels_valid sp st₁ r1
  obtain ⟨sB, b1, b2, b3⟩ := applyOp_char hwf st' (.increase c.name) hv1 k ch'
  obtain ⟨st₂, m2, _⟩ := modifyNamed_closed hwf b2 hn k
  simp only [modifyOp, m2] at b3
  refine ⟨st₁, currentSels sp st₁, st₂, a3, ?_⟩
  rw [b3]
  have m2' : modifyNamed sp sB c.name (-(-k)) = .ok st₂ := by rw [Int.neg_neg]; exact m2
  have := modify_back hwf hc (-k) st₁ st₂ ⟨sA, a1, a2, m1⟩ rfl ⟨sB, b1, b2, m2'⟩ rfl
  rw [this]
  rfl

/-- **An operator is a function of the configuration it is given**: what it returns (the new
configuration and the number of modifications, or the error) does not depend on the state the
controllers were left in by earlier operations (another member of a population, a
`configure_catalogs`, an iteration, …). -/
theorem operator_state_independent (sp : Space) (hwf : SpaceWF sp) (op : Op) (cfg : Config)
    (hv : ValidCfg sp cfg) (k : Int) (ch : List Nat) (st st' : St) :
    (applyOp sp st op cfg k ch).map (fun r => r.2) =
      (applyOp sp st' op cfg k ch).map (fun r => r.2) :=
  applyOp_state_independent hwf op hv k ch st st'

/-- **The result is a neighbour of the configuration given**: every controller the operator
does not name (for the random operators: does not draw) keeps the alternative it has in the
configuration passed to the operator, whatever the previous state of the controllers. -/
theorem operator_moves_only_named (sp : Space) (hwf : SpaceWF sp) (st : St) (op : Op)
    (cfg : Config) (hv : ValidCfg sp cfg) (k : Int) (ch : List Nat) (st' : St) (cfg' : Config)
    (r : Int) (h : applyOp sp st op cfg k ch = .ok (st', cfg', r)) (x : Controller) (hx : x ∈ sp)
    (hnot : match op with
      | .increase n => x.name ≠ n
      | .decrease n => x.name ≠ n
      | .pair n1 n2 _ => x.name ≠ n1 ∧ x.name ≠ n2
      | .several _ => x.name ∉ drawn sp (min k (sp.length : Int)) ch) :
    getSelection cfg' x.name = getSelection cfg x.name :=
  applyOp_others hwf st op hv k ch st' cfg' r h x hx hnot

/-- the pair operators returned by `prepare_operators` name two different controllers, so
`pair_inverse` applies to each of them -/
theorem prepared_pairs_distinct (sp : Space) (key : List Char) (n1 n2 : Name) (d : Dir)
    (hmem : (key, Op.pair n1 n2 d) ∈ prepareOperators sp) : n1 ≠ n2 :=
  prepareOperators_pairs sp (key, Op.pair n1 n2 d) hmem

/-- **A pair move then the opposite pair move by the same step is the identity** (both
controllers increased then decreased, or one increased and the other decreased, then the
converse), for every step in ℤ and whatever the controllers' states before each call. -/
theorem pair_inverse (sp : Space) (hwf : SpaceWF sp) (c1 c2 : Controller) (h1 : c1 ∈ sp)
    (h2 : c2 ∈ sp) (hne : c1.name ≠ c2.name) (d : Dir) (cfg : Config) (hv : ValidCfg sp cfg)
    (k : Int) (st st' : St) (ch ch' : List Nat) :
    ∃ st₁ cfg₁ st₂, applyOp sp st (.pair c1.name c2.name d) cfg k ch = .ok (st₁, cfg₁, k) ∧
      ValidCfg sp cfg₁ ∧
      applyOp sp st' (.pair c1.name c2.name d.opposite) cfg₁ k ch' = .ok (st₂, cfg, k) :=
  pair_back hwf h1 h2 hne d hv k st st' ch ch'

/-- **Histories over a population**: operators applied to the members of a population of
valid configurations, interleaved in any way with other operations on the expression
(`configure_catalogs`, `select_expression`, `modify_controller`, iteration), from any initial
state: whenever the sequence runs, the members stay valid, and they are exactly the members
obtained by the operator calls alone, from any other state of the controllers. -/
theorem population_history (sp : Space) (hwf : SpaceWF sp) (evs : List Event) (st : St)
    (pop : List Config) (stE : St) (popE : List Config) (hp : ∀ c ∈ pop, ValidCfg sp c)
    (hev : ∀ ev ∈ evs, EvOK sp ev) (h : runEvents sp st pop evs = .ok (stE, popE)) :
    (∀ c ∈ popE, ValidCfg sp c) ∧
      ∀ st', ∃ stE', runEvents sp st' pop (onlyApplies evs) = .ok (stE', popE) :=
  runEvents_spec hwf evs st pop stE popE hp hev h

/-! ### non-vacuity: a concrete expression with a shared controller and a nested catalog -/

def nm (s : String) : Name := s.toList

/-- `c3 + c2` where `c3 = Catalog('c3', {u: c1 + 1, v: 7})`, `c1 = Catalog('c1', {lin: b1*x,
quad: 5}, controlled_by=k)`, `c2 = Catalog('c2', {lin: y, quad: 9}, controlled_by=k)` -/
def e₀ : Expr :=
  .bin .plus
    (.cat (nm "c3") (nm "c3")
      (.cons (nm "u")
        (.bin .plus
          (.cat (nm "c1") (nm "k")
            (.cons (nm "lin") (.bin .times (.beta (nm "b1")) (.var (nm "x")))
              (.cons (nm "quad") (.num 5) .nil)))
          (.num 1))
        (.cons (nm "v") (.num 7) .nil)))
    (.cat (nm "c2") (nm "k")
      (.cons (nm "lin") (.var (nm "y")) (.cons (nm "quad") (.num 9) .nil)))

def sp₀ : Space := [⟨nm "c3", [nm "u", nm "v"]⟩, ⟨nm "k", [nm "lin", nm "quad"]⟩]

example : central e₀ = .ok sp₀ := by decide

example : SpaceWF sp₀ := (central_wf e₀ sp₀ (by decide)).1

example : ValidCfg sp₀ [(nm "c3", nm "u"), (nm "k", nm "quad")] := by unfold ValidCfg; decide

example : (allConfigurations sp₀).map List.length = .ok 4 := by decide

example : OpNamesIn sp₀ (.pair (nm "k") (nm "c3") .NW) := by unfold OpNamesIn; decide

/-- wrap-around: increasing `k` by −7 from `lin` lands on `quad` -/
example : (applyOp sp₀ St.init (.increase (nm "k")) [(nm "c3", nm "u"), (nm "k", nm "lin")] (-7) []).map
    (fun r => r.2.1) = .ok [(nm "c3", nm "u"), (nm "k", nm "quad")] := by decide

example : (setConfiguration sp₀ St.init [(nm "c3", nm "u"), (nm "k", nm "quad")]).map
    (fun st => (e₀.select st).map Expr.render)
    = .ok (some "Plus(Plus(Numeric(5),Numeric(1)),Numeric(9))") := by decide

/-- a pair operator given (c3:u, k:lin) while the controllers show (c3:v, k:quad): the result is
the neighbour of the configuration given -/
example : (applyOp sp₀ ((St.init.set (nm "c3") 1).set (nm "k") 1) (.pair (nm "c3") (nm "k") .NE)
    [(nm "c3", nm "u"), (nm "k", nm "lin")] 1 []).map (fun r => r.2)
    = .ok ([(nm "c3", nm "v"), (nm "k", nm "quad")], 1) := by decide

example : (nm "Pair_c3_k_SW", Op.pair (nm "c3") (nm "k") .SW) ∈ prepareOperators sp₀ := by decide

/-- a population of two members; the expression is configured elsewhere between the calls -/
example : (runEvents sp₀ St.init
      [[(nm "c3", nm "u"), (nm "k", nm "lin")], [(nm "c3", nm "v"), (nm "k", nm "lin")]]
      [.apply (.pair (nm "c3") (nm "k") .NE) 1 [] 0 0,
       .configure [(nm "c3", nm "u"), (nm "k", nm "lin")],
       .modifyCtrl (nm "k") 5 false,
       .apply (.pair (nm "c3") (nm "k") .SW) 1 [] 0 1]).map (fun r => r.2)
    = .ok [[(nm "c3", nm "v"), (nm "k", nm "quad")], [(nm "c3", nm "u"), (nm "k", nm "lin")]] := by
  decide

example : SelOK (nm "β_coût", nm "b10") := by
  unfold SelOK NameOK; decide

/-! ### round 3: construction of catalogs, chosen subsets of configurations, rewriting through catalogs -/

/-- **Construction**: every catalog of a formula the constructors accept, at any depth, has a
legal name, at least one member, and — when it was handed a controller object the user declared —
lists exactly the specification names of that controller, the same names *in the same order*
(`Catalog.__init__`: `names != controller_names` → "Incompatible IDs"). -/
theorem accepted_catalog_matches_controller (decl : List Controller) (e : Expr)
    (h : e.build decl = .ok ()) :
    ∀ x ∈ e.cats, nameOK x.1 = true ∧ x.2.2.names ≠ [] ∧
      ∀ ctrl, findCtrl decl x.2.1 = some ctrl → x.2.2.names = ctrl.specs := by
  intro x hx
  have hm := Expr.build_cats decl e h x hx
  exact ⟨(mkCatalog_basic hm).1, (mkCatalog_basic hm).2, fun ctrl hf => mkCatalog_declared hm hf⟩

/-- … conversely a formula in which some catalog (at any depth, selected or not) lists anything
else than the tuple of names of the controller it is handed — other names, fewer or more names,
or the same names in another order — is refused: no central controller is ever made for it. -/
theorem mismatched_catalog_refused (decl : List Controller) (e : Expr) (x : Name × Name × Members)
    (hx : x ∈ e.cats) (ctrl : Controller) (hf : findCtrl decl x.2.1 = some ctrl)
    (hne : x.2.2.names ≠ ctrl.specs) :
    e.build decl ≠ .ok () ∧ ∀ sp, construct decl e ≠ .ok sp := by
  have hb : e.build decl ≠ .ok () :=
    fun h => hne ((accepted_catalog_matches_controller decl e h x hx).2.2 ctrl hf)
  exact ⟨hb, fun sp h => hb (construct_ok h).1⟩

/-- The order test is necessary because the selection is positional: a catalog listing the names
of its controller in another order would show, at the controller's index of `log`, the member
named `sq`; the constructor refuses it. -/
theorem order_check_necessary :
    ∃ (names specs : List Name) (i : Nat), names.Perm specs ∧ i < specs.length ∧
      specs.getD i [] = nm "log" ∧ names.getD i [] = nm "sq" ∧
      mkCatalog [⟨nm "k", specs⟩] (nm "y") (nm "k") names = .error .incompatible :=
  ⟨[nm "log", nm "sq", nm "lin"], [nm "lin", nm "log", nm "sq"], 1,
    by decide, by decide, by decide, by decide, by decide⟩

/-- **Synchronisation with the controller object**: in a formula built with declared controllers,
after `configure_catalogs(cfg)` every catalog handed the controller `ctrl` shows (positionally, as
`Catalog.selected_name` does) the alternative the configuration names for `ctrl`, which is the
name the controller object itself reports at its current index (`Controller.current_name`). -/
theorem declared_controller_sync (decl : List Controller) (e : Expr) (sp : Space)
    (hc : construct decl e = .ok sp) (cfg : Config) (hv : ValidCfg sp cfg) (st₀ st : St)
    (hs : setConfiguration sp st₀ cfg = .ok st) :
    ∀ x ∈ e.cats, ∀ ctrl, findCtrl decl x.2.1 = some ctrl →
      getSelection cfg x.2.1 = some (shownName st x.2.1 x.2.2.names) ∧
      shownName st x.2.1 x.2.2.names = ctrl.specs.getD (st x.2.1) [] ∧
      st x.2.1 < ctrl.specs.length := by
  intro x hx ctrl hf
  obtain ⟨hb, hcen⟩ := construct_ok hc
  have hn := (accepted_catalog_matches_controller decl e hb x hx).2.2 ctrl hf
  obtain ⟨h1, h2⟩ := select_sync e sp hcen cfg hv st₀ st hs x hx
  refine ⟨h2, ?_, ?_⟩
  · unfold shownName; rw [hn]
  · rw [← hn]; exact h1

/-- **Iteration over chosen configurations** (`SelectedExpressionsIterator(expression, chosen)`,
the loop of `BIOGEME.estimate_catalog(selected_configurations=chosen)`): from any state of the
controllers, the iterator over any list of enumerated configurations visits exactly that list. -/
theorem iteration_visits_selected (sp : Space) (hwf : SpaceWF sp) (L : List Config)
    (h : allConfigurations sp = .ok L) (chosen : List Config) (hsub : ∀ c ∈ chosen, c ∈ L)
    (st : St) : iterVisited sp st chosen = .ok chosen := by
  apply iterVisited_valid hwf
  intro cfg hc
  exact ((complete sp hwf L h).1 cfg).mp (hsub cfg hc)

/-- **Rewriting through catalogs** (`rename_elementary`, `fix_betas`, `change_init_values` of
`MultipleExpression`: handed to the selected member): the formula selected after the rewriting is
the rewritten selected formula; the space of configurations is untouched. -/
theorem delegated_rewrite_commutes (e : Expr) (st : St) (f : LeafMap) :
    (e.mapSel st f).select st = (e.select st).map (Expr.mapPlain f) ∧
      central (e.mapSel st f) = central e := by
  refine ⟨Expr.mapSel_select st f e, ?_⟩
  unfold central
  rw [Expr.mapSel_ctrls]

/-- … so after `configure_catalogs(cfg)` the rewriting applied through the catalogs gives the
rewriting applied to the formula written out by hand. -/
theorem delegated_rewrite_equals_handwritten (e : Expr) (sp : Space) (hc : central e = .ok sp)
    (cfg : Config) (hv : ValidCfg sp cfg) (st₀ st : St)
    (hs : setConfiguration sp st₀ cfg = .ok st) (f : LeafMap) :
    ∃ e', e.hand cfg = some e' ∧ (e.mapSel st f).select st = some (e'.mapPlain f) := by
  obtain ⟨e', h1, h2, _⟩ := select_equals_handwritten e sp hc cfg hv st₀ st hs
  exact ⟨e', h1, by rw [(delegated_rewrite_commutes e st f).1, h2]; rfl⟩

/-- … and it is local: a member that is not the selected one is stored unchanged (it shows its
old leaves when a later configuration selects it). -/
theorem delegated_rewrite_local (st : St) (f : LeafMap) (ms : Members) (k k' : Nat) (h : k' ≠ k) :
    (ms.mapNth st f k).nth k' = ms.nth k' :=
  Members.mapNth_other st f ms k k' h

/-- **`estimate_catalog` over all configurations**: for an accepted formula with at most `maxN`
configurations, from any state of the controllers, the loop raises nothing and returns one entry
per enumerated configuration, in the order of the enumeration: under the identifier of each
configuration, the formula written out by hand for it.  The identifiers are pairwise different, so
the dict the code fills has exactly Π |specifications| keys. -/
theorem estimate_catalog_all (e : Expr) (sp : Space) (hc : central e = .ok sp) (maxN : Nat)
    (hcap : numberOfConfigurations sp ≤ maxN) (st : St) :
    estimateCatalog e maxN none st =
        .ok ((allCfgs sp).map fun cfg => (stringId cfg, e.hand cfg)) ∧
      ((allCfgs sp).map stringId).Nodup ∧
      ((allCfgs sp).map stringId).length = prodNat (sp.map Controller.size) := by
  obtain ⟨hwf, hok⟩ := central_ok hc
  have hset : setOfConfigurations sp maxN = .ok (some (allCfgs sp)) := by
    rw [cap sp hwf maxN, if_neg (Nat.not_lt.mpr hcap)]
  refine ⟨?_, ?_, by rw [List.length_map, allCfgs_length]⟩
  · unfold estimateCatalog
    simp only [hc, hset]
    exact estimateLoop_valid hwf e hok _
      (fun L hL cfg hv => by cases hL; exact (mem_allCfgs sp cfg).mpr hv) (allCfgs sp) st
      (fun cfg hm => (mem_allCfgs sp cfg).mp hm)
  · refine nodup_map_on stringId _ ?_ (allCfgs_nodup hwf)
    intro x hx y hy hxy
    exact stringId_inj_valid hwf ((mem_allCfgs sp x).mp hx) ((mem_allCfgs sp y).mp hy) hxy

/-- **`estimate_catalog(selected_configurations=chosen)`**: for any list of valid configurations
(below or above the cap), from any state, one entry per chosen configuration: its identifier and
the formula written out by hand for it. -/
theorem estimate_catalog_selected (e : Expr) (sp : Space) (hc : central e = .ok sp) (maxN : Nat)
    (chosen : List Config) (hv : ∀ cfg ∈ chosen, ValidCfg sp cfg) (st : St) :
    estimateCatalog e maxN (some chosen) st =
      .ok (chosen.map fun cfg => (stringId cfg, e.hand cfg)) := by
  obtain ⟨hwf, hok⟩ := central_ok hc
  unfold estimateCatalog
  simp only [hc, cap sp hwf maxN]
  apply estimateLoop_valid hwf e hok _ _ chosen st hv
  intro L hL cfg hcfg
  split at hL
  · cases hL
  · cases hL
    exact (mem_allCfgs sp cfg).mpr hcfg

/-- above the cap, `estimate_catalog` without a selection is refused -/
theorem estimate_catalog_too_many (e : Expr) (sp : Space) (hc : central e = .ok sp) (maxN : Nat)
    (hcap : numberOfConfigurations sp > maxN) (st : St) :
    estimateCatalog e maxN none st = .error .tooMany := by
  obtain ⟨hwf, _⟩ := central_ok hc
  unfold estimateCatalog
  simp only [hc, cap sp hwf maxN, if_pos hcap]

/-- **A formula used inside a bigger formula** (repaired behaviour, finding FC16f): the space of a
formula is computed from its own catalogs.  When `a` is part of `big` (all its catalogs are catalogs
of `big`), every controller of `a` is a controller of `big` with the same alternatives, every valid
configuration of `big`, read on the controllers of `a`, is a valid configuration of `a`, and the
hand-written form of `a` under the configuration of `big` is its hand-written form under that
restricted configuration: configuring the bigger formula configures the embedded one consistently,
and what `a` enumerates on its own (`count`, `nodup`, `complete` for `spa`) is unaffected. -/
theorem embedded_formula (big a : Expr) (hsub : ∀ c ∈ a.ctrls, c ∈ big.ctrls) (sp spa : Space)
    (hb : central big = .ok sp) (ha : central a = .ok spa) :
    (∀ c ∈ spa, c ∈ sp) ∧
      ∀ cfg, ValidCfg sp cfg →
        ValidCfg spa (restrictCfg spa cfg) ∧ a.hand cfg = a.hand (restrictCfg spa cfg) := by
  obtain ⟨hwf, _⟩ := central_ok hb
  obtain ⟨hwfa, hoka⟩ := central_ok ha
  have hincl : ∀ c ∈ spa, c ∈ sp :=
    fun c hc => (central_mem hb c).mpr (hsub c ((central_mem ha c).mp hc))
  refine ⟨hincl, fun cfg hv => ⟨restrictCfg_valid_aux sp cfg (names_nodup hwf.sorted) hv spa hincl, ?_⟩⟩
  apply Expr.hand_congr
  intro x hx
  have hf := Expr.cats_ok spa a hoka x hx
  have hmem := (findCtrl_some spa _ _ hf).1
  have h1 := getSelection_restrict spa cfg _ hmem (names_nodup hwfa.sorted)
  obtain ⟨v, _, h2⟩ := validCfg_selection sp cfg (names_nodup hwf.sorted) hv _ (hincl _ hmem)
  simp only at h1 h2
  rw [h1, h2]
  rfl

/-- the operands of a binary operator and of a unary minus are such parts -/
theorem embedded_operands (op : BinOp) (a b : Expr) :
    (∀ c ∈ a.ctrls, c ∈ (Expr.bin op a b).ctrls) ∧ (∀ c ∈ b.ctrls, c ∈ (Expr.bin op a b).ctrls) ∧
      (∀ c ∈ a.ctrls, c ∈ (Expr.neg a).ctrls) := by
  refine ⟨fun c hc => ?_, fun c hc => ?_, fun c hc => ?_⟩
  · simp only [Expr.ctrls, List.mem_append]; exact Or.inl hc
  · simp only [Expr.ctrls, List.mem_append]; exact Or.inr hc
  · simpa [Expr.ctrls] using hc

/-- **Several formulas on the same catalogs**: after ANY history of operations — selections on
this or on other formulas sharing the controllers, `select_expression`, operator calls, direct
`set_index` / `set_name` / `modify_controller` on the controller objects — from any initial state,
`f.configure_catalogs(A)` with a valid `A` succeeds and what `f` then shows is `A`: its current
configuration is `A`, every catalog of `f` shows the member named by `A`, and the formula delegated
to is the one written out by hand for `A`.  Nothing remembered from an earlier selection can
stand for the state of the controllers. -/
theorem select_after_any_history (fs : List Space) (ops : List MOp) (st₀ st₁ : St)
    (h : runM fs st₀ ops = .ok st₁) (f : Nat) (e : Expr) (sp : Space) (hf : fs[f]? = some sp)
    (hc : central e = .ok sp) (A : Config) (hv : ValidCfg sp A) :
    ∃ st₂, runM fs st₀ (ops ++ [.select f A]) = .ok st₂ ∧
      getConfiguration sp st₂ = .ok A ∧
      (∀ x ∈ e.cats, getSelection A x.2.1 = some (shownName st₂ x.2.1 x.2.2.names)) ∧
      (∃ e', e.hand A = some e' ∧ e.select st₂ = some e' ∧ ∀ env, e.evSel st₂ env = e'.ev env) ∧
      ∀ m, m ∉ sp.map Controller.name → st₂ m = st₁ m := by
  obtain ⟨hwf, _⟩ := central_ok hc
  obtain ⟨st₂, h1, h2, _, h4⟩ := setConfiguration_frame hwf st₁ hv
  refine ⟨st₂, ?_, ?_, ?_, ?_, h4⟩
  · rw [runM_append, h]
    simp [runM, stepM, hf, h1]
  · rw [getConfiguration_ok hwf, h2]
  · intro x hx
    exact (select_sync e sp hc A hv st₁ st₂ h1 x hx).2
  · obtain ⟨e', a1, a2, _, a4⟩ := select_equals_handwritten e sp hc A hv st₁ st₂ h1
    exact ⟨e', a1, a2, a4⟩

/-- … and a selection on one formula leaves the controllers that only other formulas use where
they were, so the part of another formula's view that is not shared survives it. -/
theorem select_touches_own_controllers_only (sp : Space) (hwf : SpaceWF sp) (st : St) (A : Config)
    (hv : ValidCfg sp A) :
    ∃ st', setConfiguration sp st A = .ok st' ∧ ∀ m, m ∉ sp.map Controller.name → st' m = st m := by
  obtain ⟨st', h1, _, _, h4⟩ := setConfiguration_frame hwf st hv
  exact ⟨st', h1, h4⟩

/-- **Construction interleaved with selection**: catalogs and formulas may be created at any
point of a history of selections, operator calls and direct controller moves (a catalog may be
handed a controller that has already left its first alternative).  After ANY such history, from any
world whose catalogs were accepted by the constructor, `f.configure_catalogs(A)` with a valid `A`
succeeds, `f` shows `A`, and EVERY catalog made so far — before or after the controller was moved,
inside `f` or in another formula — that was handed a declared controller governed by `f` shows
the member `A` names for that controller. -/
theorem late_catalog_follows (decl : List Controller) (ops : List WOp) (w₀ w₁ : World)
    (h : runW decl w₀ ops = .ok w₁) (h₀ : CatsOK decl w₀.cats) (f : Nat) (sp : Space)
    (hf : w₁.fs[f]? = some sp) (hwf : SpaceWF sp) (A : Config) (hv : ValidCfg sp A) :
    ∃ w₂, runW decl w₀ (ops ++ [.op (.select f A)]) = .ok w₂ ∧ w₂.cats = w₁.cats ∧
      getConfiguration sp w₂.st = .ok A ∧
      ∀ x ∈ w₂.cats, ∀ ctrl, findCtrl decl x.2.1 = some ctrl → ctrl ∈ sp →
        getSelection A ctrl.name = some (shownName w₂.st x.2.1 x.2.2) := by
  obtain ⟨st₂, h1, h2, _, _⟩ := setConfiguration_frame hwf w₁.st hv
  refine ⟨{ w₁ with st := st₂ }, ?_, rfl, ?_, ?_⟩
  · rw [runW_append, h]
    simp [runW, stepW, stepM, hf, h1]
  · show getConfiguration sp st₂ = .ok A
    rw [getConfiguration_ok hwf, h2]
  · intro x hx ctrl hfc hmem
    have hn := runW_inv ops w₀ w₁ h h₀ x hx ctrl hfc
    have hname := (findCtrl_some decl _ _ hfc).2
    have := getSelection_currentSels sp st₂ ctrl (names_nodup hwf.sorted) hmem
    rw [h2] at this
    show getSelection A ctrl.name = some (shownName st₂ x.2.1 x.2.2)
    rw [this]
    unfold shownName
    rw [hn, hname]

/-! non-vacuity of the round-3 statements -/

def decl₀ : List Controller := [⟨nm "k", [nm "lin", nm "quad"]⟩]

example : construct decl₀ e₀ = .ok sp₀ := by decide

example : e₀.build decl₀ = .ok () := by decide

/-- the same formula with the second catalog listing (quad, lin) is refused -/
example : (Expr.bin .plus (.cat (nm "c1") (nm "k") (.cons (nm "lin") (.num 1) (.cons (nm "quad") (.num 2) .nil)))
    (.cat (nm "c2") (nm "k") (.cons (nm "quad") (.num 9) (.cons (nm "lin") (.var (nm "y")) .nil)))).build decl₀
    = .error .incompatible := by decide

/-- iterating over two chosen configurations, starting from another state -/
example : iterVisited sp₀ (St.init.set (nm "k") 1)
      [[(nm "c3", nm "v"), (nm "k", nm "lin")], [(nm "c3", nm "u"), (nm "k", nm "quad")]]
    = .ok [[(nm "c3", nm "v"), (nm "k", nm "lin")], [(nm "c3", nm "u"), (nm "k", nm "quad")]] := by
  decide

example : (estimateCatalog e₀ 100 (some [[(nm "c3", nm "v"), (nm "k", nm "quad")]]) St.init).map
    (fun r => r.map fun x => (String.ofList x.1, x.2.map Expr.render))
    = .ok [("c3:v;k:quad", some "Plus(Numeric(7),Numeric(9))")] := by decide

example : (estimateCatalog e₀ 100 none St.init).map List.length = .ok 4 := by decide

example : (estimateCatalog e₀ 3 none St.init).map List.length = .error .tooMany := by decide

/-- the left operand of `e₀` on its own: two controllers as well (c3 and the shared k), four configurations;
the right operand on its own: one controller, two configurations -/
example : (match e₀ with | .bin _ a b => ((central a).map (fun sp => numberOfConfigurations sp),
    (central b).map (fun sp => numberOfConfigurations sp)) | _ => (.ok 0, .ok 0)) = (.ok 4, .ok 2) := by decide

example : restrictCfg [⟨nm "k", [nm "lin", nm "quad"]⟩] [(nm "c3", nm "v"), (nm "k", nm "quad")]
    = [(nm "k", nm "quad")] := by decide

/-- f = e₀ (controllers c3, k), g = a formula on the catalog c2 alone (controller k): f selects
(u, lin), g selects quad, the controller c3 is moved directly, f selects (u, lin) again -/
example : (runM [sp₀, [⟨nm "k", [nm "lin", nm "quad"]⟩]] St.init
      [.select 0 [(nm "c3", nm "u"), (nm "k", nm "lin")], .select 1 [(nm "k", nm "quad")],
       .directIndex ⟨nm "c3", [nm "u", nm "v"]⟩ 1,
       .select 0 [(nm "c3", nm "u"), (nm "k", nm "lin")]]).map (fun st => currentSels sp₀ st)
    = .ok [(nm "c3", nm "u"), (nm "k", nm "lin")] := by decide

/-- a catalog on controller k, a formula, k moved to `quad`; only then a second catalog on k and a second
formula; selecting `quad` (the index k already holds) on the new formula: both catalogs show `quad` -/
example : (runW decl₀ ⟨St.init, [], []⟩
      [.newCatalog (nm "c1") (nm "k") [nm "lin", nm "quad"],
       .newFormula (.bin .plus (.cat (nm "c1") (nm "k") (.cons (nm "lin") (.num 1) (.cons (nm "quad") (.num 2) .nil))) (.num 0)),
       .op (.select 0 [(nm "k", nm "quad")]),
       .newCatalog (nm "c2") (nm "k") [nm "lin", nm "quad"],
       .newFormula (.bin .plus (.cat (nm "c2") (nm "k") (.cons (nm "lin") (.num 5) (.cons (nm "quad") (.num 6) .nil))) (.num 0)),
       .op (.select 1 [(nm "k", nm "quad")])]).map
      (fun w => w.cats.map fun x => shownName w.st x.2.1 x.2.2)
    = .ok [nm "quad", nm "quad"] := by decide

/-- renaming `b1` and `x` through the catalogs while (c3:u, k:lin) is selected -/
example : ((e₀.mapSel St.init (renameMap [nm "b1", nm "x"] (some (nm "p_")) none)).select St.init).map Expr.render
    = some "Plus(Plus(Times(Beta(p_b1),Variable(p_x)),Numeric(1)),Variable(y))" := by decide

end C16
