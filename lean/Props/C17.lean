/-
C17 — specification helpers equal their documented closed forms.
Property theorems only (lemmas in Proofs/Helpers.lean, Proofs/HelpersAnalysis.lean,
Proofs/HelpersBuild.lean).
All statements are about the `ℝ` instance of the definitions of Model/Helpers.lean — the same
definitions the driver runs on `Float`.

Round 3: the section "the formulas the helpers build" is about the expression TREES the helpers
return (Model/HelpersBuild.lean: one constructor per `biogeme.expressions` node, built with the
statements of the Python sources).  On every run the harness reads the real signature text of
each formula a helper built back into such a tree (with the model of the engine's reader) and
the driver checks, node by node, that it is the tree built here; the theorems below say that
this tree, evaluated with the node semantics of the engine, has the documented closed form.
-/
import Model.Helpers
import Model.HelpersBuild
import Proofs.Helpers
import Proofs.HelpersAnalysis
import Proofs.HelpersBuild

open Helpers MeasureTheory Filter Topology

namespace C17

/-! ### piecewise linear specification

A threshold list is `mkThs openL ts openR` = `[None]? ++ ts ++ [None]?` with `ts` the numeric
thresholds, weakly increasing.  Nothing is assumed about the first threshold (it may be
non-zero) nor about the argument `x`. -/

/-- **Closed ends**: the piecewise variables sum to the distance from the first threshold
clipped to `[0, t_last − t_first]`. -/
theorem pw_sum_clip (x t0 : ℝ) (ts : List ℝ) (h : (t0 :: ts).Pairwise (· ≤ ·)) :
    Num.sum (pwVars x (mkThs false (t0 :: ts) false))
      = max 0 (min (x - t0) (ts.getLastD t0 - t0)) := by
  rw [NumR.sum_real, mkThs_closedL]; exact sum_closed x t0 ts h

/-- **Open right end** (`[t0, …, None]`): the sum is the distance from the first threshold, cut at 0. -/
theorem pw_sum_clip_open_right (x t0 : ℝ) (ts : List ℝ) (h : (t0 :: ts).Pairwise (· ≤ ·)) :
    Num.sum (pwVars x (mkThs false (t0 :: ts) true)) = max 0 (x - t0) := by
  rw [NumR.sum_real, mkThs_closedL]; exact sum_openR x t0 ts h

/-- **Open left end** (`[None, t1, …, t_last]`): the sum is `min x t_last`. -/
theorem pw_sum_clip_open_left (x t1 : ℝ) (ts : List ℝ) (h : (t1 :: ts).Pairwise (· ≤ ·)) :
    Num.sum (pwVars x (mkThs true (t1 :: ts) false)) = min x (ts.getLastD t1) := by
  rw [NumR.sum_real, mkThs_openL]; exact sum_openL_closedR x t1 ts h

/-- **Both ends open**: the variables sum to `x` itself. -/
theorem pw_sum_clip_open_both (x t1 : ℝ) (ts : List ℝ) (h : (t1 :: ts).Pairwise (· ≤ ·)) :
    Num.sum (pwVars x (mkThs true (t1 :: ts) true)) = x := by
  rw [NumR.sum_real, mkThs_openL]; exact sum_openL_openR x t1 ts h

/-- **Formula = function** for every argument, every weakly increasing threshold list with at
least one numeric threshold, open or closed ends, any first threshold, any parameters
(`piecewise_formula` evaluated by the engine vs the pure-Python `piecewise_function`). -/
theorem pw_formula_eq_function (x : ℝ) (openL openR : Bool) (t : ℝ) (ts : List ℝ) (βs : List ℝ)
    (h : (t :: ts).Pairwise (· ≤ ·)) :
    pwFormula x (mkThs openL (t :: ts) openR) βs = pwFunction x (mkThs openL (t :: ts) openR) βs := by
  cases openL
  · rw [mkThs_closedL]; exact formula_eq_function_closedL x t ts openR βs h
  · rw [mkThs_openL]; exact formula_eq_function_openL x t ts openR βs h

/-- `piecewise_as_variable` as documented (`x_1 + Σ_{i≥2} β_i x_i`) is the piecewise function
with first slope 1. -/
theorem pw_as_variable_eq_function (x : ℝ) (openL openR : Bool) (t : ℝ) (ts : List ℝ) (βs : List ℝ)
    (h : (t :: ts).Pairwise (· ≤ ·)) :
    pwAsVariable x (mkThs openL (t :: ts) openR) βs
      = pwFunction x (mkThs openL (t :: ts) openR) (1 :: βs) := by
  rw [← pw_formula_eq_function x openL openR t ts (1 :: βs) h]
  unfold pwAsVariable pwFormula
  cases hv : pwVars x (mkThs openL (t :: ts) openR) with
  | nil => simp [dot_nil_right]
  | cons v vs => simp [dot_cons]

/-- Known finding FC17a: as the code stands, two thresholds give the single variable twice, so
the sum of `piecewise_variables` is *not* the clipped distance (witness th = [1, 3], x = 2:
sum 2, clipped distance 1).  `pw_sum_clip` is about the repaired enumeration of the intervals,
which coincides with the code for three or more thresholds (`pw_vars_as_coded_ge3`). -/
theorem pw_two_thresholds_as_coded_violates :
    Num.sum (pwVarsAsCoded (2 : ℝ) [1, 3]) ≠ max 0 (min ((2 : ℝ) - 1) (3 - 1)) := by
  simp only [pwVarsAsCoded, NumR.sum_real, pwVar_cc, List.sum_cons, List.sum_nil]
  norm_num

theorem pw_vars_as_coded_ge3 (x a b c : ℝ) (ts : List ℝ) :
    pwVarsAsCoded x (a :: b :: c :: ts) = pwVars x ((a :: b :: c :: ts).map some) := rfl

/-- Known finding FC17b: as coded, `piecewise_as_variable` multiplies β_i by the variable of
interval i−1; witness th = [1, 3, 4], β = [1/2], x = 7/2: coded 3, documented 9/4. -/
theorem pw_as_variable_as_coded_violates :
    pwAsVariableAsCoded (7 / 2 : ℝ) (mkThs false [1, 3, 4] false) [1 / 2]
      ≠ pwAsVariable (7 / 2 : ℝ) (mkThs false [1, 3, 4] false) [1 / 2] := by
  simp only [pwAsVariableAsCoded, pwAsVariable, mkThs_closedL, tailR, List.map_cons, List.map_nil,
    pwVars, pwVar_cc, dot_cons, dot_nil_left, dot_nil_right, NumR.add_real, if_false,
    Bool.false_eq_true, List.append_nil]
  norm_num [max_def, min_def]

/-! ### Box-Cox -/

/-- outside the switching interval the transform is `(x^ℓ − 1)/ℓ` -/
theorem boxcox_regular (x l : ℝ) (hx : x ≠ 0) (hl : ¬(-1e-5 < l ∧ l < 1e-5)) :
    boxcox x l = (x ^ l - 1) / l := by
  rw [boxcox_real, if_neg hx, if_neg hl, boxcoxRegular_real]

/-- at ℓ = 0 the value is `log x` -/
theorem boxcox_at_zero (x : ℝ) (hx : x ≠ 0) : boxcox x 0 = Real.log x := by
  rw [boxcox_real, if_neg hx, if_pos (by norm_num), boxcoxSeries_real]
  ring

/-- inside the switching interval the value is the degree-4 series, and its distance to
`(x^ℓ − 1)/ℓ` is at most `|log x|^5 |ℓ|^4 / 100` (Taylor remainder of the exponential) -/
theorem boxcox_series_bound (x l : ℝ) (hx : 0 < x) (hl0 : l ≠ 0) (hl : -1e-5 < l ∧ l < 1e-5)
    (hy : |l * Real.log x| ≤ 1) :
    |boxcox x l - (x ^ l - 1) / l| ≤ |Real.log x| ^ 5 * |l| ^ 4 / 100 := by
  rw [boxcox_real, if_neg hx.ne', if_pos hl, boxcoxSeries_real]
  exact series_bound x l hx hl0 hy

/-- `(x^ℓ − 1)/ℓ → log x` as ℓ → 0 (ℓ ≠ 0) -/
theorem boxcox_limit (x : ℝ) (hx : 0 < x) :
    Tendsto (fun l : ℝ => (x ^ l - 1) / l) (𝓝[≠] 0) (𝓝 (Real.log x)) :=
  Helpers.boxcox_limit x hx

/-- the implemented transform is continuous in ℓ through 0, with value `log x` there -/
theorem boxcox_continuous_through_zero (x : ℝ) (hx : x ≠ 0) :
    Tendsto (fun l => boxcox x l) (𝓝 0) (𝓝 (Real.log x)) := by
  have := (boxcox_continuousAt_zero x hx).tendsto
  rwa [boxcox_at_zero x hx] at this

/-- `boxcox(0, ℓ) = 0` (the special case of the code) -/
theorem boxcox_of_zero (l : ℝ) : boxcox 0 l = 0 := by
  rw [boxcox_real, if_pos rfl]

/-! ### densities and distribution functions -/

/-- the constant the code uses for √(2π) is within 1e-9 of it -/
theorem sqrt_two_pi_constant : |(2.506628275 : ℝ) - Real.sqrt (2 * Real.pi)| < 1e-9 :=
  sqrt2pi_bound

theorem normalpdf_def (x mu s : ℝ) :
    normalpdf x mu s = Real.exp (-(x - mu) ^ 2 / (2 * s ^ 2)) / (s * 2.506628275) :=
  normalpdf_real x mu s

/-- the normal density integrates to √(2π)/2.506628275, which is within 1e-9 of one -/
theorem normalpdf_integral (mu s : ℝ) (hs : 0 < s) :
    ∫ x, normalpdf x mu s = Real.sqrt (2 * Real.pi) / 2.506628275 ∧
    |(∫ x, normalpdf x mu s) - 1| < 1e-9 := by
  have h : ∫ x, normalpdf x mu s = Real.sqrt (2 * Real.pi) / 2.506628275 := by
    simp_rw [normalpdf_real]; exact normal_integral_core mu s hs
  refine ⟨h, ?_⟩
  rw [h]
  have hb := sqrt2pi_bound
  rw [abs_lt] at hb ⊢
  generalize Real.sqrt (2 * Real.pi) = r at hb ⊢
  constructor
  · rw [lt_sub_iff_add_lt, lt_div_iff₀ (by norm_num)]; norm_num at hb ⊢; linarith [hb.1, hb.2]
  · rw [sub_lt_iff_lt_add, div_lt_iff₀ (by norm_num)]; norm_num at hb ⊢; linarith [hb.1, hb.2]

theorem lognormalpdf_def (x mu s : ℝ) :
    lognormalpdf x mu s = if 0 < x then
      Real.exp (-(Real.log x - mu) ^ 2 / (2 * s ^ 2)) / (x * s * 2.506628275) else 0 :=
  lognormalpdf_real x mu s

theorem uniformpdf_def (x a b : ℝ) :
    uniformpdf x a b = if a ≤ x ∧ x ≤ b then 1 / (b - a) else 0 :=
  uniformpdf_real x a b

theorem uniformpdf_integral (a b : ℝ) (hab : a < b) : ∫ x, uniformpdf x a b = 1 := by
  simp_rw [uniformpdf_real]; exact uniform_integral_core a b hab

/-- closed form including the mode `x = c` and the end points -/
theorem triangularpdf_def (x a b c : ℝ) (hac : a < c) (hcb : c < b) :
    triangularpdf x a b c =
      if x < a then 0
      else if x < c then 2 * (x - a) / ((b - a) * (c - a))
      else if x = c then 2 / (b - a)
      else if x ≤ b then 2 * (b - x) / ((b - a) * (b - c))
      else 0 :=
  triangularpdf_real x a b c hac hcb

theorem triangularpdf_integral (a b c : ℝ) (hac : a < c) (hcb : c < b) :
    ∫ x, triangularpdf x a b c = 1 := by
  have : (fun x => triangularpdf x a b c) = fun x => triForm x a b c := by
    funext x; rw [triangularpdf_real x a b c hac hcb]; rfl
  rw [this]; exact tri_integral_core a b c hac hcb

theorem logisticcdf_def (x mu s : ℝ) :
    logisticcdf x mu s = 1 / (1 + Real.exp (-(x - mu) / s)) :=
  logisticcdf_real x mu s

/-- the logistic cdf is strictly increasing with limits 0 and 1 -/
theorem logisticcdf_monotone_limits (mu s : ℝ) (hs : 0 < s) :
    StrictMono (fun x => logisticcdf x mu s) ∧
    Tendsto (fun x => logisticcdf x mu s) atBot (𝓝 0) ∧
    Tendsto (fun x => logisticcdf x mu s) atTop (𝓝 1) := by
  simp_rw [logisticcdf_real]
  exact ⟨logistic_strictMono mu s hs, logistic_atBot mu s hs, logistic_atTop mu s hs⟩

/-! ### regression likelihood -/

/-- the regression log likelihood is the log of the normal density, up to the difference of
the two rounded constants of the code, which is below 1e-9 … -/
theorem regression_loglik (y m s : ℝ) (hs : 0 < s) :
    loglikReg y m s = Real.log (normalpdf y m s) + (Real.log 2.506628275 - 0.9189385332) ∧
    |Real.log 2.506628275 - (0.9189385332 : ℝ)| < 1e-9 := by
  refine ⟨loglikReg_eq_log_normalpdf y m s hs, ?_⟩
  have := log_const_bounds
  rw [abs_lt]
  constructor <;> norm_num <;> linarith [this.1, this.2]

/-- … and it is the exact normal log density `−(y−m)²/(2σ²) − log σ − ½ log 2π` up to 1e-9 -/
theorem regression_loglik_exact_density (y m s : ℝ) (hs : 0 < s) :
    |loglikReg y m s - (-(y - m) ^ 2 / (2 * s ^ 2) - Real.log s - Real.log (2 * Real.pi) / 2)|
      < 1e-9 := by
  have h : loglikReg y m s - (-(y - m) ^ 2 / (2 * s ^ 2) - Real.log s - Real.log (2 * Real.pi) / 2)
      = Real.log (2 * Real.pi) / 2 - 0.9189385332 := by
    rw [loglikReg_real, Real.log_pow, div_pow]
    field_simp
    ring
  rw [h]
  have := half_log_two_pi_bounds
  rw [abs_lt]
  constructor <;> norm_num <;> linarith [this.1, this.2]

/-! ### segmented parameters -/

/-- **Every segmentation, every row**: when the row lies, for each segmentation variable, in a
category of its mapping (`cat s`), the segmented parameter evaluates to the reference value
plus, for each segmentation, the shift of that category — none in the reference category.
Several segmentations add. -/
theorem segmented_value (beta : String) (specs : List SegSpec) (param row : String → ℝ)
    (cat : SegSpec → Int × String)
    (hkeys : ∀ s ∈ specs, (s.mapping.map Prod.fst).Nodup)
    (hrow : ∀ s ∈ specs, cat s ∈ s.mapping ∧ row s.varName = ((cat s).1 : ℝ)) :
    segmentedBeta beta specs param row
      = param beta + (specs.map fun s => shiftOf beta param s (cat s).2).sum := by
  rw [segmentedBeta_real]
  congr 1
  apply congrArg
  apply List.map_congr_left
  intro s hs
  obtain ⟨hm, hr⟩ := hrow s hs
  rw [hr]
  simp only [Int.cast_inj]
  exact seg_one beta param s (cat s).1 (cat s).2 (hkeys s hs) hm

/-- one segmentation, row in the reference category: the reference value -/
theorem segmented_reference (beta : String) (s : SegSpec) (param row : String → ℝ) (k : Int)
    (hkeys : (s.mapping.map Prod.fst).Nodup) (hm : (k, s.ref) ∈ s.mapping)
    (hr : row s.varName = (k : ℝ)) :
    segmentedBeta beta [s] param row = param beta := by
  rw [segmented_value beta [s] param row (fun _ => (k, s.ref)) (by simpa using hkeys)
    (by simpa using ⟨hm, hr⟩)]
  simp [shiftOf]

/-- **The generated code describes the same formula**: running the generated specification
(assignments, then the `bioMultSum` of the same terms) gives the value of `segmented_beta`,
for every list of segmentations. -/
theorem segmented_code_same (beta : String) (specs : List SegSpec) (param row : String → ℝ) :
    evalCode (segmentedCode beta specs) param row = some (segmentedBeta beta specs param row) := by
  unfold evalCode segmentedCode segmentedBeta
  simp only
  rw [if_pos]
  · simp only [List.map_flatMap, List.map_map, Function.comp_def]
  · simp only [List.all_eq_true, List.mem_flatMap, List.mem_map, List.contains_iff_mem]
    rintro t ⟨s, hs, kc, hkc, rfl⟩
    exact ⟨s, hs, kc, hkc, rfl⟩

/-! ### correlation of the nested logit model -/

/-- nests with duplicate-free, pairwise disjoint lists of alternatives -/
def NestsOK (nests : List (Nest ℝ)) : Prop :=
  (∀ n ∈ nests, n.alts.Nodup) ∧ nests.Pairwise (fun a b => ∀ x, x ∈ a.alts → x ∉ b.alts)

/-- diagonal 1; within nest m: `1 − 1/μ_m²` (scale 1); across nests or for an alternative
outside every nest: 0 -/
theorem nested_correlation (nests : List (Nest ℝ)) (hok : NestsOK nests) (i j : Int) :
    (i = j → corrEntry 1 nests i j = 1) ∧
    (i ≠ j → ∀ n ∈ nests, i ∈ n.alts → j ∈ n.alts → corrEntry 1 nests i j = 1 - 1 / n.mu ^ 2) ∧
    (i ≠ j → (∀ n ∈ nests, ¬(i ∈ n.alts ∧ j ∈ n.alts)) → corrEntry 1 nests i j = 0) := by
  refine ⟨?_, ?_, ?_⟩
  · rintro rfl
    unfold corrEntry
    rw [corr_fold_none _ _ _ _ _ (fun n hn => pairIn_diag n (hok.1 n hn) i)]
    simp
    norm_num
  · intro hij n hn hi hj
    unfold corrEntry
    have : Std.Symm (fun a b : Nest ℝ => ∀ x, x ∈ a.alts → x ∉ b.alts) :=
      ⟨fun a b h x hxb hxa => h x hxa hxb⟩
    rw [corr_fold_some 1 _ (nestCorr 1 n) nests i j ⟨n, hn, pairIn_of_mem n i j hi hj hij⟩]
    · unfold nestCorr
      simp only [NumR.eq_real, NumR.ofSci_real, one_sci, if_true, NumR.sub_real, NumR.div_real,
        NumR.mul_real, pow_two]
    · intro m hm hp
      by_cases hmn : m = n
      · rw [hmn]
      · exact absurd hi (hok.2.forall hm hn hmn i (mem_of_pairIn m i j hp).1)
  · intro hij hnone
    unfold corrEntry
    rw [corr_fold_none]
    · have : (i == j) = false := by simpa using hij
      simp [this]
      norm_num
    · intro n hn
      rw [Bool.eq_false_iff]
      intro hp
      exact hnone n hn (mem_of_pairIn n i j hp)

/-- with a model scale μ ≠ 1 the within-nest value is `1 − μ²/μ_m²` -/
theorem nested_correlation_scaled (mu : ℝ) (hmu : mu ≠ 1) (nests : List (Nest ℝ)) (hok : NestsOK nests)
    (i j : Int) (hij : i ≠ j) (n : Nest ℝ) (hn : n ∈ nests) (hi : i ∈ n.alts) (hj : j ∈ n.alts) :
    corrEntry mu nests i j = 1 - mu ^ 2 / n.mu ^ 2 := by
  unfold corrEntry
  have : Std.Symm (fun a b : Nest ℝ => ∀ x, x ∈ a.alts → x ∉ b.alts) :=
    ⟨fun a b h x hxb hxa => h x hxa hxb⟩
  rw [corr_fold_some mu _ (nestCorr mu n) nests i j ⟨n, hn, pairIn_of_mem n i j hi hj hij⟩]
  · unfold nestCorr
    have : ¬ (mu = 1) := hmu
    simp only [NumR.eq_real, NumR.ofSci_real, one_sci, this, if_false, NumR.sub_real, NumR.div_real,
      NumR.mul_real, pow_two]
  · intro m hm hp
    by_cases hmn : m = n
    · rw [hmn]
    · exact absurd hi (hok.2.forall hm hn hmn i (mem_of_pairIn m i j hp).1)

/-! ### non-vacuity: the hypotheses are satisfiable by concrete non-trivial inputs -/

example : ((1 : ℝ) :: [2, 5]).Pairwise (· ≤ ·) := by
  simp only [List.pairwise_cons, List.mem_cons, List.not_mem_nil, or_false, forall_eq_or_imp,
    forall_eq, IsEmpty.forall_iff, implies_true, List.Pairwise.nil, and_true]
  norm_num

/-- first threshold 1 ≠ 0, x = 3/2 in the first segment: formula and function agree on β₀/2 -/
example : pwFunction (3 / 2 : ℝ) (mkThs false [1, 2, 5] false) [2, -1] = 1 := by
  simp only [pwFunction, mkThs_closedL, tailR, List.map_cons, List.map_nil, pwLoop, NumR.lt_real,
    NumR.add_real, NumR.mul_real, NumR.sub_real, NumR.ofNat_real_zero, if_false, Bool.false_eq_true,
    List.append_nil]
  norm_num

example : ¬(-1e-5 < (1e-5 : ℝ) ∧ (1e-5 : ℝ) < 1e-5) := by norm_num
example : (-1e-5 < (1e-6 : ℝ) ∧ (1e-6 : ℝ) < 1e-5) ∧ |(1e-6 : ℝ) * Real.log 1| ≤ 1 := by
  simp; norm_num

def specIncome : SegSpec := ⟨"income", [(1, "low"), (2, "mid"), (3, "high")], some "mid"⟩
def specSex : SegSpec := ⟨"sex", [(0, "m"), (1, "f")], none⟩

example : ∀ s ∈ [specIncome, specSex], (s.mapping.map Prod.fst).Nodup := by decide
example : specIncome.ref = "mid" ∧ specSex.ref = "m" ∧
    specIncome.kept = [(1, "low"), (3, "high")] ∧ specSex.kept = [(1, "f")] := by decide

def nestsEx : List (Nest ℝ) := [⟨2, [1, 3]⟩, ⟨3, [2, 5, 6]⟩]
example : NestsOK nestsEx := by
  refine ⟨?_, ?_⟩
  · intro n hn
    simp only [nestsEx, List.mem_cons, List.not_mem_nil, or_false] at hn
    rcases hn with rfl | rfl <;> decide
  · simp only [nestsEx, List.pairwise_cons, List.mem_cons, List.not_mem_nil, or_false, forall_eq,
      IsEmpty.forall_iff, implies_true, List.Pairwise.nil, and_true]
    rintro x (rfl | rfl) <;> decide

/-! ### the formulas the helpers build

`HE ℝ` = expression tree, `evalT env` = its value with the engine's node semantics in the
environment `env` (values of the parameters and of the data variables of one row).  `X`, `L`,
`MU`, … are arbitrary argument expressions (a `Variable`, a `Beta`, a `Numeric`, or any formula). -/

section built
open HelpersBuild

/-- **`piecewise_variables`**: the expressions it builds evaluate to the model's variables — on
every number type, hence bit for bit on `Float` too. -/
theorem pw_variables_built {α : Type} [NumOps α] (env : Expr.Env α) (X : HE α) (ths : List (Option α)) :
    (pwVarsE X ths).map (evalT env) = pwVars (evalT env X) ths :=
  pwVars_built env X ths

/-- … as many as there are intervals -/
theorem pw_variables_built_count {α : Type} [NumOps α] (X : HE α) (ths : List (Option α)) :
    (pwVarsE X ths).length = ths.length - 1 :=
  pwVarsE_length X ths

/-- … and, closed ends, they sum to the clipped distance from the first threshold. -/
theorem pw_variables_built_sum_clip (env : Expr.Env ℝ) (X : HE ℝ) (t0 : ℝ) (ts : List ℝ)
    (h : (t0 :: ts).Pairwise (· ≤ ·)) :
    Num.sum ((pwVarsE X (mkThs false (t0 :: ts) false)).map (evalT env))
      = max 0 (min (evalT env X - t0) (ts.getLastD t0 - t0)) := by
  rw [pwVars_built]; exact pw_sum_clip (evalT env X) t0 ts h

/-- **The formula `piecewise_formula` builds coincides with the plain piecewise function**, for
every argument expression, every weakly increasing threshold list (open or closed ends, any first
threshold) and every list of parameter expressions. -/
theorem pw_formula_built_eq_function (env : Expr.Env ℝ) (X : HE ℝ) (openL openR : Bool) (t : ℝ)
    (ts : List ℝ) (Bs : List (HE ℝ)) (h : (t :: ts).Pairwise (· ≤ ·)) :
    evalT env (pwFormulaE X (mkThs openL (t :: ts) openR) Bs)
      = pwFunction (evalT env X) (mkThs openL (t :: ts) openR) (Bs.map (evalT env)) := by
  rw [pwFormula_built]; exact pw_formula_eq_function _ openL openR t ts _ h

/-- **The formula `piecewise_as_variable` builds** is the piecewise function with first slope 1. -/
theorem pw_as_variable_built_eq_function (env : Expr.Env ℝ) (X : HE ℝ) (openL openR : Bool) (t : ℝ)
    (ts : List ℝ) (Bs : List (HE ℝ)) (h : (t :: ts).Pairwise (· ≤ ·)) :
    evalT env (pwAsVariableE X (mkThs openL (t :: ts) openR) Bs)
      = pwFunction (evalT env X) (mkThs openL (t :: ts) openR) (1 :: Bs.map (evalT env)) := by
  rw [pwAsVariable_built]; exact pw_as_variable_eq_function _ openL openR t ts _ h

/-- **The formula `boxcox` builds** (two nested `Elem`, `Power` or `PowerConstant` according to the
kind of the exponent) is `(x^ℓ − 1)/ℓ` outside the switching interval, … -/
theorem boxcox_built_regular (env : Expr.Env ℝ) (X L : HE ℝ) (hx : evalT env X ≠ 0)
    (hl : ¬(-1e-5 < evalT env L ∧ evalT env L < 1e-5)) :
    evalT env (boxcoxE X L) = (evalT env X ^ evalT env L - 1) / evalT env L := by
  rw [boxcox_built]; exact boxcox_regular _ _ hx hl

/-- … within the Taylor remainder of it inside, … -/
theorem boxcox_built_series_bound (env : Expr.Env ℝ) (X L : HE ℝ) (hx : 0 < evalT env X)
    (hl0 : evalT env L ≠ 0) (hl : -1e-5 < evalT env L ∧ evalT env L < 1e-5)
    (hy : |evalT env L * Real.log (evalT env X)| ≤ 1) :
    |evalT env (boxcoxE X L) - (evalT env X ^ evalT env L - 1) / evalT env L|
      ≤ |Real.log (evalT env X)| ^ 5 * |evalT env L| ^ 4 / 100 := by
  rw [boxcox_built]; exact boxcox_series_bound _ _ hx hl0 hl hy

/-- … `log x` at ℓ = 0 and 0 at x = 0. -/
theorem boxcox_built_special (env : Expr.Env ℝ) (X L : HE ℝ) :
    (evalT env X ≠ 0 → evalT env L = 0 → evalT env (boxcoxE X L) = Real.log (evalT env X)) ∧
    (evalT env X = 0 → evalT env (boxcoxE X L) = 0) := by
  rw [boxcox_built]
  exact ⟨fun hx hl => by rw [hl]; exact boxcox_at_zero _ hx, fun hx => by rw [hx]; exact boxcox_of_zero _⟩

/-- **The formulas the density helpers build** have the textbook closed forms. -/
theorem densities_built (env : Expr.Env ℝ) (X P Q R : HE ℝ) :
    let x := evalT env X; let p := evalT env P; let q := evalT env Q; let r := evalT env R
    evalT env (normalpdfE X P Q) = Real.exp (-(x - p) ^ 2 / (2 * q ^ 2)) / (q * 2.506628275) ∧
    evalT env (lognormalpdfE X P Q)
      = (if 0 < x then Real.exp (-(Real.log x - p) ^ 2 / (2 * q ^ 2)) / (x * q * 2.506628275) else 0) ∧
    evalT env (uniformpdfE X P Q) = (if p ≤ x ∧ x ≤ q then 1 / (q - p) else 0) ∧
    evalT env (logisticcdfE X P Q) = 1 / (1 + Real.exp (-(x - p) / q)) ∧
    (p < r → r < q → evalT env (triangularpdfE X P Q R) =
      if x < p then 0
      else if x < r then 2 * (x - p) / ((q - p) * (r - p))
      else if x = r then 2 / (q - p)
      else if x ≤ q then 2 * (q - x) / ((q - p) * (q - r))
      else 0) := by
  intro x p q r
  refine ⟨?_, ?_, ?_, ?_, ?_⟩
  · rw [normalpdf_built]; exact normalpdf_def x p q
  · rw [lognormalpdf_built]; exact lognormalpdf_def x p q
  · rw [uniformpdf_built]; exact uniformpdf_def x p q
  · rw [logisticcdf_built]; exact logisticcdf_def x p q
  · intro h1 h2; rw [triangularpdf_built]; exact triangularpdf_def x p q r h1 h2

/-- the build-time check of `triangularpdf` passes exactly on the domain of `triangularpdf_def`;
that of `uniformpdf` exactly when `a ≤ b`; the scale checks exactly when `0 < s` -/
theorem density_checks (a b c s : ℝ) :
    (triCheck a b c = false ↔ a < c ∧ c < b) ∧ (uniformCheck a b = false ↔ a ≤ b) ∧
    (scaleCheck s = false ↔ 0 < s) := by
  refine ⟨?_, ?_, ?_⟩
  · simp only [triCheck, Bool.or_eq_false_iff, NumR.le_real_false]
  · simp only [uniformCheck, NumR.lt_real_false]
  · simp only [scaleCheck, NumR.le_real_false, NumR.ofNat_real_zero]

/-- **The formula `loglikelihoodregression` builds** is the normal log density up to 1e-9, and the
one `likelihoodregression` builds is its exponential. -/
theorem regression_built (env : Expr.Env ℝ) (Y M S : HE ℝ) (hs : 0 < evalT env S) :
    |evalT env (loglikRegE Y M S)
        - (-(evalT env Y - evalT env M) ^ 2 / (2 * evalT env S ^ 2) - Real.log (evalT env S)
            - Real.log (2 * Real.pi) / 2)| < 1e-9 ∧
    evalT env (likRegE Y M S) = Real.exp (evalT env (loglikRegE Y M S)) := by
  refine ⟨?_, ?_⟩
  · rw [loglikReg_built]; exact regression_loglik_exact_density _ _ _ hs
  · simp only [likRegE, evalT_un, unOp, NumR.exp_real]

/-- **The formula `segmented_beta` builds** evaluates, on a row lying in category `cat s` of every
segmentation, to the reference value plus the shifts of those categories. -/
theorem segmented_built_value (env : Expr.Env ℝ) (beta : String) (specs : List SegSpec)
    (cat : SegSpec → Int × String)
    (hkeys : ∀ s ∈ specs, (s.mapping.map Prod.fst).Nodup)
    (hrow : ∀ s ∈ specs, cat s ∈ s.mapping ∧ env.var s.varName = ((cat s).1 : ℝ)) :
    evalT env (segmentedBetaE beta specs)
      = env.beta beta + (specs.map fun s => shiftOf beta env.beta s (cat s).2).sum := by
  rw [segmentedBeta_built]; exact segmented_value beta specs env.beta env.var cat hkeys hrow

/-- **The expression the generated code denotes** (the bare parameter when no category is left, the
`bioMultSum` otherwise) has the value of the formula `segmented_beta` builds. -/
theorem segmented_code_built (env : Expr.Env ℝ) (beta : String) (specs : List SegSpec) :
    evalT env (segmentedCodeE beta specs) = evalT env (segmentedBetaE beta specs) :=
  segmentedCode_built env beta specs

/-! non-vacuity of this section: concrete trees -/

noncomputable def envEx : Expr.Env ℝ := { beta := fun n => if n = "b1" then 2 else -1, var := fun _ => 3 / 2 }

example : (pwVarsE (.var "x" : HE ℝ) (mkThs true [1, 2] true)).length = 3 := by decide
example : evalT envEx (.var "x" : HE ℝ) ≠ 0 ∧ ¬(-1e-5 < evalT envEx (.num 1 : HE ℝ) ∧ evalT envEx (.num 1 : HE ℝ) < 1e-5) := by
  simp only [evalT_var, evalT_num, envEx]; norm_num
example : (segmentedCodeE (α := ℝ) "b" [specIncome]).size = 12
    ∧ (segmentedCodeE (α := ℝ) "b" [⟨"v", [(1, "only")], none⟩]).size = 1 := by decide
example : (triCheck (0 : ℝ) 3 1 = false) := (density_checks 0 3 1 1).1.mpr (by norm_num)

end built

end C17
