import Model.Mdcev
open Mdcev
namespace C18
theorem stub_placeholder : (1 : Nat) = 1 := rfl
end C18
