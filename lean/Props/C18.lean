/-
C18 — MDCEV forecasts solve the consumer problem; model pieces agree.
Property theorems only (helper lemmas in Proofs/MdcevCalc.lean, MdcevCalc2.lean, MdcevKkt.lean,
MdcevAlgo.lean).  Real-valued statements are about the ℝ instance of the definitions the driver
runs on Float (Model/Mdcev.lean).

`ParamOK a` is the documented parameter domain (0 < α < 1, γ > 0, price > 0); `domain a` is
[0, ∞) for an ordinary good and (0, ∞) for the outside good.
-/
import Model.Mdcev
import Proofs.MdcevKkt
import Proofs.MdcevAlgo
import Proofs.MdcevOrder

open Mdcev

namespace C18

/-! ### the derivative function is the derivative of the utility -/

/-- all four variants, with or without outside good, prices and scale -/
theorem deriv_all (v : Variant) (scale : Option ℝ) (a : Alt ℝ) (hok : ParamOK a) (x : ℝ)
    (hx : x ∈ domain a) : HasDerivAt (fun t => U v scale a t) (dU v scale a x) x :=
  hasDerivAt_U v scale a hok x hx

theorem deriv_translated (scale : Option ℝ) (a : Alt ℝ) (hok : ParamOK a) (x : ℝ) (hx : x ∈ domain a) :
    HasDerivAt (fun t => U .translated scale a t) (dU .translated scale a x) x :=
  hasDerivAt_U .translated scale a hok x hx
theorem deriv_gamma_profile (scale : Option ℝ) (a : Alt ℝ) (hok : ParamOK a) (x : ℝ) (hx : x ∈ domain a) :
    HasDerivAt (fun t => U .gammaProfile scale a t) (dU .gammaProfile scale a x) x :=
  hasDerivAt_U .gammaProfile scale a hok x hx
theorem deriv_generalized (scale : Option ℝ) (a : Alt ℝ) (hok : ParamOK a) (x : ℝ) (hx : x ∈ domain a) :
    HasDerivAt (fun t => U .generalized scale a t) (dU .generalized scale a x) x :=
  hasDerivAt_U .generalized scale a hok x hx
theorem deriv_non_monotonic (scale : Option ℝ) (a : Alt ℝ) (hok : ParamOK a) (x : ℝ) (hx : x ∈ domain a) :
    HasDerivAt (fun t => U .nonMonotonic scale a t) (dU .nonMonotonic scale a x) x :=
  hasDerivAt_U .nonMonotonic scale a hok x hx

/-! ### the closed-form optimal consumption inverts the derivative -/

/-- translated: for a positive multiplier below the overflow guard `MAX_EXP_ARGUMENT` -/
theorem inverse_translated (scale : Option ℝ) (a : Alt ℝ) (hok : ParamOK a) (lam : ℝ) (hl : 0 < lam)
    (hcap : trL scale a lam ≤ maxExpArgument) :
    dU .translated scale a (inv .translated scale a lam) = lam := by
  cases hg : a.gamma with
  | none => exact inverse_tr_out scale a lam hg hl hok.alpha_pos (ne_of_lt hok.alpha_lt) hcap
  | some g => exact inverse_tr_in scale a g lam hg hl hok.alpha_pos (ne_of_lt hok.alpha_lt) hcap

theorem inverse_gamma_profile (scale : Option ℝ) (a : Alt ℝ) (hok : ParamOK a) (lam : ℝ) (hl : 0 < lam) :
    dU .gammaProfile scale a (inv .gammaProfile scale a lam) = lam := by
  cases hg : a.gamma with
  | none => exact inverse_gp_out scale a lam hg hl
  | some g => exact inverse_gp_in scale a g lam hg hl (hok.gamma_pos g hg)

theorem inverse_generalized (scale : Option ℝ) (a : Alt ℝ) (hok : ParamOK a) (lam : ℝ) (hl : 0 < lam) :
    dU .generalized scale a (inv .generalized scale a lam) = lam := by
  cases hg : a.gamma with
  | none => exact inverse_ge_out scale a lam hg hl hok.price_pos (ne_of_lt hok.alpha_lt)
  | some g =>
    exact inverse_ge_in scale a g lam hg hl (hok.gamma_pos g hg) hok.price_pos (ne_of_lt hok.alpha_lt)

/-- non-monotonic: for a multiplier above `μ + ε` (the model-specific lower bound) -/
theorem inverse_non_monotonic (scale : Option ℝ) (a : Alt ℝ) (hok : ParamOK a) (lam : ℝ)
    (hl : a.mu + scaledEps scale a < lam) :
    dU .nonMonotonic scale a (inv .nonMonotonic scale a lam) = lam := by
  cases hg : a.gamma with
  | none => exact inverse_nm_out scale a lam hg hl (ne_of_lt hok.alpha_lt)
  | some g => exact inverse_nm_in scale a g lam hg (hok.gamma_pos g hg) hl (ne_of_lt hok.alpha_lt)

/-! ### concavity and optimality -/

/-- every variant's utility is concave on the admissible consumptions -/
theorem utility_concave (v : Variant) (scale : Option ℝ) (a : Alt ℝ) (hok : ParamOK a) :
    ConcaveOn ℝ (domain a) (fun t => U v scale a t) :=
  U_concave v scale a hok

/-- marginal utility is decreasing -/
theorem marginal_utility_decreasing (v : Variant) (scale : Option ℝ) (a : Alt ℝ) (hok : ParamOK a)
    (x y : ℝ) (hx : x ∈ domain a) (hxy : x ≤ y) : dU v scale a y ≤ dU v scale a x :=
  dU_antitone v scale a hok x y hx hxy

/-- **KKT ⇒ optimal**, for any finite family of concave differentiable utilities: budget
exhausted, non-negative, equal marginal utility `lam` on the support, marginal utility at zero not
above `lam` elsewhere ⇒ no feasible allocation has a larger total utility. -/
theorem kkt_optimal {ι : Type*} (s : Finset ι) (D : ι → Set ℝ) (f : ι → ℝ → ℝ)
    (f' : ι → ℝ) (x y : ι → ℝ) (lam B : ℝ)
    (hconc : ∀ k ∈ s, ConcaveOn ℝ (D k) (f k))
    (hxD : ∀ k ∈ s, x k ∈ D k) (hyD : ∀ k ∈ s, y k ∈ D k)
    (hder : ∀ k ∈ s, HasDerivAt (f k) (f' k) (x k))
    (hx0 : ∀ k ∈ s, 0 ≤ x k) (hy0 : ∀ k ∈ s, 0 ≤ y k)
    (hsumx : ∑ k ∈ s, x k = B) (hsumy : ∑ k ∈ s, y k = B)
    (hpos : ∀ k ∈ s, 0 < x k → f' k = lam) (hzero : ∀ k ∈ s, x k = 0 → f' k ≤ lam) :
    ∑ k ∈ s, f k (y k) ≤ ∑ k ∈ s, f k (x k) :=
  kkt_optimal_finset s D f f' x y lam B hconc hxD hyD hder hx0 hy0 hsumx hsumy hpos hzero

/-- **KKT ⇒ optimal for the model**: `pts` lists (alternative, forecast consumption, competing
consumption).  If the forecast satisfies the KKT conditions with multiplier `lam` for the model's
own `dU`, any competing allocation with the same budget — in particular the brute-force one — has
a `sum_of_utilities` that is not larger. -/
theorem kkt_optimal_variant (v : Variant) (scale : Option ℝ) (lam B : ℝ)
    (pts : List (Alt ℝ × ℝ × ℝ))
    (h : ∀ p ∈ pts, KktPoint v scale lam p)
    (hx : (pts.map (·.2.1)).sum = B) (hy : (pts.map (·.2.2)).sum = B) :
    sumUtilities v scale (pts.map (·.1)) (pts.map (·.2.2)) ≤
      sumUtilities v scale (pts.map (·.1)) (pts.map (·.2.1)) :=
  kkt_optimal_pts v scale lam B pts h hx hy

/-! ### the bisection -/

/-- total consumption of a set of goods is decreasing in the multiplier (what the bisection
relies on) -/
theorem consumption_monotone (v : Variant) (scale : Option ℝ) (chosen : List (Alt ℝ))
    (hok : ∀ a ∈ chosen, ParamOK a) (l₁ l₂ : ℝ)
    (h1 : ∀ a ∈ chosen, lamOK scale a v l₁) (h12 : l₁ ≤ l₂) :
    totalAt v scale chosen l₂ ≤ totalAt v scale chosen l₁ :=
  totalAt_antitone v scale chosen hok l₁ l₂ h1 h12

/-- **bisection invariant**: if a multiplier `lamStar` in the initial bracket exhausts the budget,
it stays bracketed after any number of passes of the loop (whatever the tolerances, also when a
pass stops early or meets a negative consumption). -/
theorem bisection_invariant (v : Variant) (scale : Option ℝ) (chosen : List (Alt ℝ))
    (hok : ∀ a ∈ chosen, ParamOK a) (anyNeg : ℝ → Bool) (B tolD tolB lamStar : ℝ) (n : Nat)
    (s : BisState ℝ) (hdom : ∀ a ∈ chosen, lamOK scale a v s.lo)
    (hroot : totalAt v scale chosen lamStar = B) (hlo : s.lo ≤ lamStar) (hhi : lamStar ≤ s.hi) :
    (bisLoop (totalAt v scale chosen) anyNeg B tolD tolB n s).lo ≤ lamStar ∧
    lamStar ≤ (bisLoop (totalAt v scale chosen) anyNeg B tolD tolB n s).hi := by
  apply bisLoop_invariant (totalAt v scale chosen) anyNeg B tolD tolB lamStar n s _ hlo hhi
  intro l hl1 _
  have hdl : ∀ a ∈ chosen, lamOK scale a v l := by
    intro a ha
    have := hdom a ha
    cases v <;> simp only [lamOK] at this ⊢ <;> linarith
  have hds : ∀ a ∈ chosen, lamOK scale a v lamStar := by
    intro a ha
    have := hdom a ha
    cases v <;> simp only [lamOK] at this ⊢ <;> linarith
  constructor
  · intro hle
    rw [← hroot]
    exact totalAt_antitone v scale chosen hok l lamStar hdl hle
  · intro hle
    rw [← hroot]
    exact totalAt_antitone v scale chosen hok lamStar l hds hle

/-- a pass that neither stops nor meets a negative consumption halves the bracket, unless the
budget is met exactly -/
theorem bisection_halves (g : ℝ → ℝ) (anyNeg : ℝ → Bool) (B tolD tolB : ℝ) (s : BisState ℝ)
    (hgo : s.go = true) (hnn : s.negative = false) (hneg : anyNeg ((s.lo + s.hi) / 2) = false) :
    (bisStep g anyNeg B tolD tolB s).hi - (bisStep g anyNeg B tolD tolB s).lo = (s.hi - s.lo) / 2 ∨
      g ((s.lo + s.hi) / 2) = B :=
  bisStep_halves g anyNeg B tolD tolB s hgo hnn hneg

/-- **termination condition**: a pass switches `continue_iterations` off only when
`hi − lo ≤ tolerance_dual` or `|Σx − B| ≤ tolerance_budget` (otherwise the loop runs its 5000
passes) -/
theorem bisection_termination (g : ℝ → ℝ) (anyNeg : ℝ → Bool) (B tolD tolB : ℝ) (s : BisState ℝ)
    (hgo : s.go = true) (hnn : s.negative = false) :
    (bisStep g anyNeg B tolD tolB s).go = false → (bisStep g anyNeg B tolD tolB s).negative = false →
      (bisStep g anyNeg B tolD tolB s).hi - (bisStep g anyNeg B tolD tolB s).lo ≤ tolD ∨
        |g ((s.lo + s.hi) / 2) - B| ≤ tolB :=
  bisStep_stop g anyNeg B tolD tolB s hgo hnn

/-! ### outside good, labels -/

/-- the outside good is in the identified choice set, whatever the data (any number type) -/
theorem outside_good_always_chosen {α} [NumOps α] (v : Variant) (scale : Option α) (budget : α)
    (alts : List (Alt α)) (a : Alt α) (ha : a ∈ alts) (hout : isOutside a = true) :
    a ∈ (identifyChosen v scale budget alts).chosen :=
  outside_in_identified v scale budget alts a ha hout

/-- **label irrelevance**: relabelling the alternatives by any injective map commutes with the
whole forecast — chosen set, multiplier and consumptions (any number type, also on Float).  The
order of the list (`index_to_key`) is kept; independence from that order is exercised by the
relabelling stream of the harness. -/
theorem labels_irrelevant {α} [NumOps α] (π : Int → Int) (hπ : Function.Injective π) (v : Variant)
    (scale : Option α) (budget tolD tolB : α) (alts : List (Alt α)) :
    forecast v scale budget tolD tolB (alts.map (relabelAlt π))
      = (forecast v scale budget tolD tolB alts).map (relabelFc π) :=
  forecast_relabel π hπ v scale budget tolD tolB alts

/-- **order irrelevance** (over ℝ): the forecast does not depend on the order in which the
alternatives are listed — the order of `index_to_key`, i.e. the iteration order of the Python set
of labels, which is where labels could still matter — provided the marginal utilities at zero
of the ordinary goods are pairwise distinct (true with probability one for continuous draws)
and there is at most one outside good: same error, or same chosen set, same multiplier and the
same consumptions up to that order. -/
theorem order_irrelevant (v : Variant) (scale : Option ℝ) (budget tolD tolB : ℝ) (l₁ l₂ : List (Alt ℝ))
    (hp : l₂.Perm l₁) (hone : (l₁.filter isOutside).length ≤ 1)
    (hkeys : ((l₁.filter fun a => !isOutside a).map fun a => dU v scale a 0).Nodup) :
    (∀ e, forecast v scale budget tolD tolB l₁ = .error e → forecast v scale budget tolD tolB l₂ = .error e) ∧
    (∀ f₁, forecast v scale budget tolD tolB l₁ = .ok f₁ →
      ∃ f₂, forecast v scale budget tolD tolB l₂ = .ok f₂ ∧ f₂.chosen = f₁.chosen ∧ f₂.lam = f₁.lam ∧
        f₂.x.Perm f₁.x) :=
  forecast_perm v scale budget tolD tolB l₁ l₂ hp hone hkeys

/-- the consumption given to the outside good by the closed form is strictly positive -/
theorem outside_good_consumed (v : Variant) (scale : Option ℝ) (a : Alt ℝ) (hok : ParamOK a)
    (hout : a.gamma = none) (lam : ℝ) (hl : lamOK scale a v lam) : 0 < inv v scale a lam :=
  inv_outside_pos v scale a hok hout lam hl (fun _ => trivial)

/-- the Boolean relation the driver evaluates on every real forecast (`kktB`), taken with zero
tolerances, is exactly the list of hypotheses of `kkt_optimal_variant` -/
theorem kkt_relation_exact (v : Variant) (scale : Option ℝ) (B lam : ℝ) (alts : List (Alt ℝ))
    (xs : List ℝ) (h : kktB v scale B 0 0 alts xs lam = true) :
    xs.sum = B ∧ ∀ p ∈ alts.zip xs, 0 ≤ p.2 ∧ (0 < p.2 → dU v scale p.1 p.2 = lam) ∧
      (p.2 = 0 → isOutside p.1 = false ∧ dU v scale p.1 0 ≤ lam) :=
  kktB_exact v scale B lam alts xs h

/-! ### non-vacuity -/

noncomputable def exAlt : Alt ℝ := ⟨7, 0, some 2, 1 / 2, 3 / 2, -1 / 4, 1 / 10⟩
noncomputable def exOut : Alt ℝ := ⟨3, 0, none, 1 / 2, 1, 0, 0⟩

example : ParamOK exAlt :=
  ⟨by norm_num [exAlt], by norm_num [exAlt], by norm_num [exAlt],
   by intro g hg; simp only [exAlt, Option.some.injEq] at hg; rw [← hg]; norm_num⟩
example : ParamOK exOut :=
  ⟨by norm_num [exOut], by norm_num [exOut], by norm_num [exOut], by intro g hg; simp [exOut] at hg⟩
example : (0 : ℝ) ∈ domain exAlt := by simp [domain, exAlt]
example : (1 : ℝ) ∈ domain exOut := by simp [domain, exOut]
example : lamOK none exAlt .nonMonotonic 1 := by simp [lamOK, exAlt, scaledEps]; norm_num
/-- a KKT point exists: one good, the whole budget on it -/
example (v : Variant) : KktPoint v none (dU v none exOut 1) (exOut, 1, 1) :=
  ⟨⟨by norm_num [exOut], by norm_num [exOut], by norm_num [exOut], by intro g hg; simp [exOut] at hg⟩,
   by simp [domain, exOut], by simp [domain, exOut], fun _ => rfl, fun h => by norm_num at h⟩

end C18
