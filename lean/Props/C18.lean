/-
C18 — MDCEV forecasts solve the consumer problem; model pieces agree.
Property theorems only (helper lemmas in Proofs/MdcevCalc.lean, MdcevCalc2.lean, MdcevKkt.lean,
MdcevAlgo.lean).  Real-valued statements are about the ℝ instance of the definitions the driver
runs on Float (Model/Mdcev.lean).

`ParamOK a` is the documented parameter domain (0 < α < 1, γ > 0, price > 0); `domain a` is
[0, ∞) for an ordinary good and (0, ∞) for the outside good.
-/
import Model.Mdcev
import Proofs.MdcevKkt
import Proofs.MdcevAlgo
import Proofs.MdcevOrder
import Proofs.MdcevExt

open Mdcev

namespace C18

/-! ### the derivative function is the derivative of the utility -/

/-- all four variants, with or without outside good, prices and scale -/
theorem deriv_all (v : Variant) (scale : Option ℝ) (a : Alt ℝ) (hok : ParamOK a) (x : ℝ)
    (hx : x ∈ domain a) : HasDerivAt (fun t => U v scale a t) (dU v scale a x) x :=
  hasDerivAt_U v scale a hok x hx

theorem deriv_translated (scale : Option ℝ) (a : Alt ℝ) (hok : ParamOK a) (x : ℝ) (hx : x ∈ domain a) :
    HasDerivAt (fun t => U .translated scale a t) (dU .translated scale a x) x :=
  hasDerivAt_U .translated scale a hok x hx
theorem deriv_gamma_profile (scale : Option ℝ) (a : Alt ℝ) (hok : ParamOK a) (x : ℝ) (hx : x ∈ domain a) :
    HasDerivAt (fun t => U .gammaProfile scale a t) (dU .gammaProfile scale a x) x :=
  hasDerivAt_U .gammaProfile scale a hok x hx
theorem deriv_generalized (scale : Option ℝ) (a : Alt ℝ) (hok : ParamOK a) (x : ℝ) (hx : x ∈ domain a) :
    HasDerivAt (fun t => U .generalized scale a t) (dU .generalized scale a x) x :=
  hasDerivAt_U .generalized scale a hok x hx
theorem deriv_non_monotonic (scale : Option ℝ) (a : Alt ℝ) (hok : ParamOK a) (x : ℝ) (hx : x ∈ domain a) :
    HasDerivAt (fun t => U .nonMonotonic scale a t) (dU .nonMonotonic scale a x) x :=
  hasDerivAt_U .nonMonotonic scale a hok x hx

/-! ### the closed-form optimal consumption inverts the derivative -/

/-- translated: for a positive multiplier below the overflow guard `MAX_EXP_ARGUMENT` -/
theorem inverse_translated (scale : Option ℝ) (a : Alt ℝ) (hok : ParamOK a) (lam : ℝ) (hl : 0 < lam)
    (hcap : trL scale a lam ≤ maxExpArgument) :
    dU .translated scale a (inv .translated scale a lam) = lam := by
  cases hg : a.gamma with
  | none => exact inverse_tr_out scale a lam hg hl hok.alpha_pos (ne_of_lt hok.alpha_lt) hcap
  | some g => exact inverse_tr_in scale a g lam hg hl hok.alpha_pos (ne_of_lt hok.alpha_lt) hcap

theorem inverse_gamma_profile (scale : Option ℝ) (a : Alt ℝ) (hok : ParamOK a) (lam : ℝ) (hl : 0 < lam) :
    dU .gammaProfile scale a (inv .gammaProfile scale a lam) = lam := by
  cases hg : a.gamma with
  | none => exact inverse_gp_out scale a lam hg hl
  | some g => exact inverse_gp_in scale a g lam hg hl (hok.gamma_pos g hg)

theorem inverse_generalized (scale : Option ℝ) (a : Alt ℝ) (hok : ParamOK a) (lam : ℝ) (hl : 0 < lam) :
    dU .generalized scale a (inv .generalized scale a lam) = lam := by
  cases hg : a.gamma with
  | none => exact inverse_ge_out scale a lam hg hl hok.price_pos (ne_of_lt hok.alpha_lt)
  | some g =>
    exact inverse_ge_in scale a g lam hg hl (hok.gamma_pos g hg) hok.price_pos (ne_of_lt hok.alpha_lt)

/-- non-monotonic: for a multiplier above `μ + ε` (the model-specific lower bound) -/
theorem inverse_non_monotonic (scale : Option ℝ) (a : Alt ℝ) (hok : ParamOK a) (lam : ℝ)
    (hl : a.mu + scaledEps scale a < lam) :
    dU .nonMonotonic scale a (inv .nonMonotonic scale a lam) = lam := by
  cases hg : a.gamma with
  | none => exact inverse_nm_out scale a lam hg hl (ne_of_lt hok.alpha_lt)
  | some g => exact inverse_nm_in scale a g lam hg (hok.gamma_pos g hg) hl (ne_of_lt hok.alpha_lt)

/-! ### concavity and optimality -/

/-- every variant's utility is concave on the admissible consumptions -/
theorem utility_concave (v : Variant) (scale : Option ℝ) (a : Alt ℝ) (hok : ParamOK a) :
    ConcaveOn ℝ (domain a) (fun t => U v scale a t) :=
  U_concave v scale a hok

/-- marginal utility is decreasing -/
theorem marginal_utility_decreasing (v : Variant) (scale : Option ℝ) (a : Alt ℝ) (hok : ParamOK a)
    (x y : ℝ) (hx : x ∈ domain a) (hxy : x ≤ y) : dU v scale a y ≤ dU v scale a x :=
  dU_antitone v scale a hok x y hx hxy

/-- **KKT ⇒ optimal**, for any finite family of concave differentiable utilities: budget
exhausted, non-negative, equal marginal utility `lam` on the support, marginal utility at zero not
above `lam` elsewhere ⇒ no feasible allocation has a larger total utility. -/
theorem kkt_optimal {ι : Type*} (s : Finset ι) (D : ι → Set ℝ) (f : ι → ℝ → ℝ)
    (f' : ι → ℝ) (x y : ι → ℝ) (lam B : ℝ)
    (hconc : ∀ k ∈ s, ConcaveOn ℝ (D k) (f k))
    (hxD : ∀ k ∈ s, x k ∈ D k) (hyD : ∀ k ∈ s, y k ∈ D k)
    (hder : ∀ k ∈ s, HasDerivAt (f k) (f' k) (x k))
    (hx0 : ∀ k ∈ s, 0 ≤ x k) (hy0 : ∀ k ∈ s, 0 ≤ y k)
    (hsumx : ∑ k ∈ s, x k = B) (hsumy : ∑ k ∈ s, y k = B)
    (hpos : ∀ k ∈ s, 0 < x k → f' k = lam) (hzero : ∀ k ∈ s, x k = 0 → f' k ≤ lam) :
    ∑ k ∈ s, f k (y k) ≤ ∑ k ∈ s, f k (x k) :=
  kkt_optimal_finset s D f f' x y lam B hconc hxD hyD hder hx0 hy0 hsumx hsumy hpos hzero

/-- **KKT ⇒ optimal for the model**: `pts` lists (alternative, forecast consumption, competing
consumption).  If the forecast satisfies the KKT conditions with multiplier `lam` for the model's
own `dU`, any competing allocation with the same budget — in particular the brute-force one — has
a `sum_of_utilities` that is not larger. -/
theorem kkt_optimal_variant (v : Variant) (scale : Option ℝ) (lam B : ℝ)
    (pts : List (Alt ℝ × ℝ × ℝ))
    (h : ∀ p ∈ pts, KktPoint v scale lam p)
    (hx : (pts.map (·.2.1)).sum = B) (hy : (pts.map (·.2.2)).sum = B) :
    sumUtilities v scale (pts.map (·.1)) (pts.map (·.2.2)) ≤
      sumUtilities v scale (pts.map (·.1)) (pts.map (·.2.1)) :=
  kkt_optimal_pts v scale lam B pts h hx hy

/-! ### the bisection -/

/-- total consumption of a set of goods is decreasing in the multiplier (what the bisection
relies on) -/
theorem consumption_monotone (v : Variant) (scale : Option ℝ) (chosen : List (Alt ℝ))
    (hok : ∀ a ∈ chosen, ParamOK a) (l₁ l₂ : ℝ)
    (h1 : ∀ a ∈ chosen, lamOK scale a v l₁) (h12 : l₁ ≤ l₂) :
    totalAt v scale chosen l₂ ≤ totalAt v scale chosen l₁ :=
  totalAt_antitone v scale chosen hok l₁ l₂ h1 h12

/-- **bisection invariant**: if a multiplier `lamStar` in the initial bracket exhausts the budget,
it stays bracketed after any number of passes of the loop (whatever the tolerances, also when a
pass stops early or meets a negative consumption). -/
theorem bisection_invariant (v : Variant) (scale : Option ℝ) (chosen : List (Alt ℝ))
    (hok : ∀ a ∈ chosen, ParamOK a) (anyNeg : ℝ → Bool) (B tolD tolB lamStar : ℝ) (n : Nat)
    (s : BisState ℝ) (hdom : ∀ a ∈ chosen, lamOK scale a v s.lo)
    (hroot : totalAt v scale chosen lamStar = B) (hlo : s.lo ≤ lamStar) (hhi : lamStar ≤ s.hi) :
    (bisLoop (totalAt v scale chosen) anyNeg B tolD tolB n s).lo ≤ lamStar ∧
    lamStar ≤ (bisLoop (totalAt v scale chosen) anyNeg B tolD tolB n s).hi := by
  apply bisLoop_invariant (totalAt v scale chosen) anyNeg B tolD tolB lamStar n s _ hlo hhi
  intro l hl1 _
  have hdl : ∀ a ∈ chosen, lamOK scale a v l := by
    intro a ha
    have := hdom a ha
    cases v <;> simp only [lamOK] at this ⊢ <;> linarith
  have hds : ∀ a ∈ chosen, lamOK scale a v lamStar := by
    intro a ha
    have := hdom a ha
    cases v <;> simp only [lamOK] at this ⊢ <;> linarith
  constructor
  · intro hle
    rw [← hroot]
    exact totalAt_antitone v scale chosen hok l lamStar hdl hle
  · intro hle
    rw [← hroot]
    exact totalAt_antitone v scale chosen hok lamStar l hds hle

/-- a pass that neither stops nor meets a negative consumption halves the bracket, unless the
budget is met exactly -/
theorem bisection_halves (g : ℝ → ℝ) (anyNeg : ℝ → Bool) (B tolD tolB : ℝ) (s : BisState ℝ)
    (hgo : s.go = true) (hnn : s.negative = false) (hneg : anyNeg ((s.lo + s.hi) / 2) = false) :
    (bisStep g anyNeg B tolD tolB s).hi - (bisStep g anyNeg B tolD tolB s).lo = (s.hi - s.lo) / 2 ∨
      g ((s.lo + s.hi) / 2) = B :=
  bisStep_halves g anyNeg B tolD tolB s hgo hnn hneg

/-- **termination condition**: a pass switches `continue_iterations` off only when
`hi − lo ≤ tolerance_dual` or `|Σx − B| ≤ tolerance_budget` (otherwise the loop runs its 5000
passes) -/
theorem bisection_termination (g : ℝ → ℝ) (anyNeg : ℝ → Bool) (B tolD tolB : ℝ) (s : BisState ℝ)
    (hgo : s.go = true) (hnn : s.negative = false) :
    (bisStep g anyNeg B tolD tolB s).go = false → (bisStep g anyNeg B tolD tolB s).negative = false →
      (bisStep g anyNeg B tolD tolB s).hi - (bisStep g anyNeg B tolD tolB s).lo ≤ tolD ∨
        |g ((s.lo + s.hi) / 2) - B| ≤ tolB :=
  bisStep_stop g anyNeg B tolD tolB s hgo hnn

/-! ### outside good, labels -/

/-- the outside good is in the identified choice set, whatever the data (any number type) -/
theorem outside_good_always_chosen {α} [NumOps α] (v : Variant) (scale : Option α) (budget : α)
    (alts : List (Alt α)) (a : Alt α) (ha : a ∈ alts) (hout : isOutside a = true) :
    a ∈ (identifyChosen v scale budget alts).chosen :=
  outside_in_identified v scale budget alts a ha hout

/-- **label irrelevance**: relabelling the alternatives by any injective map commutes with the
whole forecast — chosen set, multiplier and consumptions (any number type, also on Float).  The
order of the list (`index_to_key`) is kept; independence from that order is exercised by the
relabelling stream of the harness. -/
theorem labels_irrelevant {α} [NumOps α] (π : Int → Int) (hπ : Function.Injective π) (v : Variant)
    (scale : Option α) (budget tolD tolB : α) (alts : List (Alt α)) :
    forecast v scale budget tolD tolB (alts.map (relabelAlt π))
      = (forecast v scale budget tolD tolB alts).map (relabelFc π) :=
  forecast_relabel π hπ v scale budget tolD tolB alts

/-- **order irrelevance** (over ℝ): the forecast does not depend on the order in which the
alternatives are listed — the order of `index_to_key`, i.e. the iteration order of the Python set
of labels, which is where labels could still matter — provided the marginal utilities at zero
of the ordinary goods are pairwise distinct (true with probability one for continuous draws)
and there is at most one outside good: same error, or same chosen set, same multiplier and the
same consumptions up to that order. -/
theorem order_irrelevant (v : Variant) (scale : Option ℝ) (budget tolD tolB : ℝ) (l₁ l₂ : List (Alt ℝ))
    (hp : l₂.Perm l₁) (hone : (l₁.filter isOutside).length ≤ 1)
    (hkeys : ((l₁.filter fun a => !isOutside a).map fun a => dU v scale a 0).Nodup) :
    (∀ e, forecast v scale budget tolD tolB l₁ = .error e → forecast v scale budget tolD tolB l₂ = .error e) ∧
    (∀ f₁, forecast v scale budget tolD tolB l₁ = .ok f₁ →
      ∃ f₂, forecast v scale budget tolD tolB l₂ = .ok f₂ ∧ f₂.chosen = f₁.chosen ∧ f₂.lam = f₁.lam ∧
        f₂.x.Perm f₁.x) :=
  forecast_perm v scale budget tolD tolB l₁ l₂ hp hone hkeys

/-- the consumption given to the outside good by the closed form is strictly positive -/
theorem outside_good_consumed (v : Variant) (scale : Option ℝ) (a : Alt ℝ) (hok : ParamOK a)
    (hout : a.gamma = none) (lam : ℝ) (hl : lamOK scale a v lam) : 0 < inv v scale a lam :=
  inv_outside_pos v scale a hok hout lam hl (fun _ => trivial)

/-- the Boolean relation the driver evaluates on every real forecast (`kktB`), taken with zero
tolerances, is exactly the list of hypotheses of `kkt_optimal_variant` -/
theorem kkt_relation_exact (v : Variant) (scale : Option ℝ) (B lam : ℝ) (alts : List (Alt ℝ))
    (xs : List ℝ) (h : kktB v scale B 0 0 alts xs lam = true) :
    xs.sum = B ∧ ∀ p ∈ alts.zip xs, 0 ≤ p.2 ∧ (0 < p.2 → dU v scale p.1 p.2 = lam) ∧
      (p.2 = 0 → isOutside p.1 = false ∧ dU v scale p.1 0 ≤ lam) :=
  kktB_exact v scale B lam alts xs h

/-! ### round 3: symbolic utility, thresholds, non-empty choice set, lower bound, parameter update -/

/-- **numeric utility = symbolic utility**: the formula built by `utility_expression_one_alternative`
(`utilityExpr`: the code's branches on the scale parameter and on γ is None), evaluated on the
values of the model's sub-expressions, is the number `utility_one_alternative` returns — all four
variants, with or without outside good, prices and scale.  (Translated, outside good: the numeric
function returns 0 at x = 0 where the formula has log 0; excluded.) -/
theorem expr_eq_numeric (v : Variant) (scale : Option ℝ) (a : Alt ℝ) (x : ℝ)
    (hx : v = .translated → a.gamma = none → x ≠ 0) : symbolicU v scale a x = U v scale a x :=
  symbolicU_eq v scale a x hx

/-- an ordinary good receives exactly zero from the closed form at its own marginal utility at
zero: the thresholds by which `identification_chosen_alternatives` orders the goods are the
multipliers at which they enter the choice set -/
theorem inverse_at_zero_marginal (v : Variant) (scale : Option ℝ) (a : Alt ℝ) (g : ℝ)
    (hg : a.gamma = some g) (hok : ParamOK a) (hcap : v = .translated → Real.log g ≤ maxExpArgument) :
    inv v scale a (dU v scale a 0) = 0 :=
  inv_at_threshold scale a v g hg hok hcap

/-- **non-negativity**: for a multiplier in the domain of the closed form and not above the
marginal utility at zero of an ordinary good, its consumption is non-negative -/
theorem consumption_nonneg (v : Variant) (scale : Option ℝ) (a : Alt ℝ) (g : ℝ) (hg : a.gamma = some g)
    (hok : ParamOK a) (hcap : v = .translated → Real.log g ≤ maxExpArgument) (lam : ℝ)
    (hl : lamOK scale a v lam) (hle : lam ≤ dU v scale a 0) : 0 ≤ inv v scale a lam :=
  inv_nonneg_below_threshold scale a v g hg hok hcap lam hl hle

/-- **the choice set is never empty** (needed to exhaust the budget): without outside good the
first candidate always enters — whatever the sign of the marginal utilities at zero (they may all
be negative in the non-monotonic variant, where the lower bound of the empty set is −∞) -/
theorem choice_set_nonempty (v : Variant) (scale : Option ℝ) (budget : ℝ) (alts : List (Alt ℝ))
    (hb : 0 < budget) (hne : alts ≠ []) (hno : ∀ a ∈ alts, isOutside a = false)
    (hok : ∀ a ∈ alts, ParamOK a)
    (hcap : v = .translated → ∀ a ∈ alts, ∀ g, a.gamma = some g → Real.log g ≤ maxExpArgument) :
    (identifyChosen v scale budget alts).chosen ≠ [] :=
  identified_nonempty v scale budget alts hb hne hno hok hcap

/-- `lower_bound_dual_variable` is −∞ exactly for the empty set of the non-monotonic variant -/
theorem lower_bound_unbounded_iff (v : Variant) (scale : Option ℝ) (chosen : List (Alt ℝ)) :
    lowerBound v scale chosen = none ↔ v = .nonMonotonic ∧ chosen = [] :=
  lowerBound_none_iff v scale chosen

/-- above `lower_bound_dual_variable` the closed-form consumption of every chosen good is in its
domain (where `inverse_*`, `consumption_monotone` and `consumption_nonneg` apply) -/
theorem lower_bound_sound (v : Variant) (scale : Option ℝ) (chosen : List (Alt ℝ)) (l lam : ℝ)
    (h : lowerBound v scale chosen = some l) (hl : l < lam) : ∀ a ∈ chosen, lamOK scale a v lam :=
  lowerBound_sound v scale chosen l lam h hl

/-- **parameters after estimation** (`estimation_results` setter →
`_update_parameters_in_expressions`): every expression a forecast reads — baseline utilities, the
γ that are not None, α, scale, and the variant's own μ utilities / prices — is updated (any
number type) -/
theorem parameters_updated {α : Type} (betas : List (String × α)) (m : Params α) :
    forecastExprs (updateModel betas m) = (forecastExprs m).map (changeInit betas) :=
  forecastExprs_updated betas m

/-- … and an updated expression carries the estimated value in every slot whose name was
estimated, the old value elsewhere -/
theorem updated_slot_value {α : Type} (betas : List (String × α)) (e : PExpr α) (nv : String × α)
    (h : nv ∈ changeInit betas e) :
    (∃ b, betas.lookup nv.1 = some b ∧ nv.2 = b) ∨ (betas.lookup nv.1 = none ∧ nv ∈ e) :=
  changeInit_slot betas e nv h

/-- **budget exhaustion at the returned multiplier** (repaired behaviour, finding F-C18-3): when
the bisection hands over a multiplier that met the budget criterion, the total consumption there
is within `tolerance_budget` of the budget — after any number of passes -/
theorem returned_multiplier_meets_budget (v : Variant) (scale : Option ℝ) (chosen : List (Alt ℝ))
    (anyNeg : ℝ → Bool) (B tolD tolB : ℝ) (n : Nat) (lo hi l : ℝ)
    (h : (bisLoop (totalAt v scale chosen) anyNeg B tolD tolB n
      { lo := lo, hi := hi, go := true, negative := false }).met = some l) :
    |totalAt v scale chosen l - B| ≤ tolB :=
  bisLoop_met (totalAt v scale chosen) anyNeg B tolD tolB n _ (by intro l hl; cases hl) l h

/-- the code as it is (midpoint of the bracket it has just updated) does NOT have that property:
concrete witness (the negation of the clause for the unrepaired rule) -/
theorem midpoint_after_stop_misses_budget :
    let s' := bisStep (fun l => 4 - l) (fun _ => false) (9 / 4) 0 (1 / 2)
      { lo := (0 : ℝ), hi := 4, go := true, negative := false }
    s'.go = false ∧ s'.met = some 2 ∧
      ¬ |(fun l : ℝ => 4 - l) ((s'.lo + s'.hi) / 2) - 9 / 4| ≤ 1 / 2 :=
  Mdcev.midpoint_after_stop_misses_budget

/-- **shape of a forecast**: a successful forecast gives 0 to the goods outside the identified
choice set and the closed-form consumption at the returned multiplier to the others (any number
type); with `consumption_nonneg` / `outside_good_consumed` this is the non-negativity clause -/
theorem forecast_support {α} [NumOps α] (v : Variant) (scale : Option α) (budget tolD tolB : α)
    (alts : List (Alt α)) (f : Forecast α) (h : forecast v scale budget tolD tolB alts = .ok f) :
    f.chosen = (identifyChosen v scale budget alts).chosen.map (·.label) ∧
    f.x = alts.map fun a => (a.label,
      if isChosenIn (identifyChosen v scale budget alts).chosen a then inv v scale a f.lam
      else @OfNat.ofNat α 0 Num.instOfNatOfNumOps) :=
  forecast_ok_shape v scale budget tolD tolB alts f h

/-! ### non-vacuity -/

noncomputable def exAlt : Alt ℝ := ⟨7, 0, some 2, 1 / 2, 3 / 2, -1 / 4, 1 / 10⟩
noncomputable def exOut : Alt ℝ := ⟨3, 0, none, 1 / 2, 1, 0, 0⟩

example : ParamOK exAlt :=
  ⟨by norm_num [exAlt], by norm_num [exAlt], by norm_num [exAlt],
   by intro g hg; simp only [exAlt, Option.some.injEq] at hg; rw [← hg]; norm_num⟩
example : ParamOK exOut :=
  ⟨by norm_num [exOut], by norm_num [exOut], by norm_num [exOut], by intro g hg; simp [exOut] at hg⟩
example : (0 : ℝ) ∈ domain exAlt := by simp [domain, exAlt]
example : (1 : ℝ) ∈ domain exOut := by simp [domain, exOut]
example : lamOK none exAlt .nonMonotonic 1 := by simp [lamOK, exAlt, scaledEps]; norm_num
/-- a KKT point exists: one good, the whole budget on it -/
example (v : Variant) : KktPoint v none (dU v none exOut 1) (exOut, 1, 1) :=
  ⟨⟨by norm_num [exOut], by norm_num [exOut], by norm_num [exOut], by intro g hg; simp [exOut] at hg⟩,
   by simp [domain, exOut], by simp [domain, exOut], fun _ => rfl, fun h => by norm_num at h⟩

/-- hypotheses of `choice_set_nonempty` / `consumption_nonneg`: a non-monotonic good whose marginal
utility at zero is negative (ψ = 0, μ = −3, ε = 1/10) -/
noncomputable def exNeg : Alt ℝ := ⟨7, 0, some 2, 1 / 2, 1, -3, 1 / 10⟩
example : ParamOK exNeg :=
  ⟨by norm_num [exNeg], by norm_num [exNeg], by norm_num [exNeg],
   by intro g hg; simp only [exNeg, Option.some.injEq] at hg; rw [← hg]; norm_num⟩
example : dU .nonMonotonic none exNeg 0 < 0 := by
  simp [dU, exNeg, scaledEps]; norm_num
example : (identifyChosen .nonMonotonic none 3 [exNeg]).chosen ≠ [] :=
  choice_set_nonempty .nonMonotonic none 3 [exNeg] (by norm_num) (by simp)
    (by intro a ha; simp at ha; subst ha; simp [isOutside, exNeg])
    (by intro a ha; simp at ha; subst ha
        exact ⟨by norm_num [exNeg], by norm_num [exNeg], by norm_num [exNeg],
          by intro g hg; simp only [exNeg, Option.some.injEq] at hg; rw [← hg]; norm_num⟩)
    (by intro h; cases h)
example : lamOK none exNeg .nonMonotonic (-5 / 2) := by simp [lamOK, exNeg, scaledEps]; norm_num
example : lowerBound .nonMonotonic none [exNeg] = some (-3 + 1 / 10) := by
  rw [lowerBound_nm]; simp [nmStep, exNeg, scaledEps]
example : symbolicU .generalized (some 2) exAlt 1 = U .generalized (some 2) exAlt 1 :=
  expr_eq_numeric _ _ _ _ (by intro h; cases h)
/-- `returned_multiplier_meets_budget`: the hypothesis is met by the witness above -/
example : (bisLoop (fun l : ℝ => 4 - l) (fun _ => false) (9 / 4) 0 (1 / 2) 1
    { lo := (0 : ℝ), hi := 4, go := true, negative := false }).met = some 2 := by
  simp only [bisLoop]
  exact Mdcev.midpoint_after_stop_misses_budget.2.1
/-- `forecast_support`: a forecast that succeeds (one good, the bracket is not inverted, no negative consumption met) -/
example : ∃ f, finish .gammaProfile (none : Option ℝ) [exAlt] [exAlt] { lo := 1, hi := 2, go := false, negative := false } = .ok f :=
  ⟨_, by simp only [finish, Bool.false_eq_true, if_false]; rfl⟩
example : changeInit [("b", (2 : Int))] [("b", 0), ("c", 5)] = [("b", 2), ("c", 5)] := by decide
example : forecastExprs (updateModel [("m", (4 : Int))]
    ⟨.nonMonotonic, [(1, [("b", 0)])], [(1, none)], some [(1, [("a", 1)])], none, none, [(1, [("m", 0)])], none⟩)
    = [[("b", 0)], [("a", 1)], [("m", 4)]] := by decide

end C18
