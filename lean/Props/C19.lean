/-
C19 — sampled choice sets follow the protocol; full sampling equals the full model.
Property theorems only (helper lemmas in Proofs/Sampling.lean, Proofs/SamplingReal.lean).

The random step of the code (`DataFrame.sample(n, replace=False)`) is the parameter `picks`
with the contract `picksOK` (n distinct rows of the frame it is called on); everything the
code does around it is the executable function `sampleAlternatives`.
-/
import Model.Sampling
import Proofs.Sampling
import Proofs.SamplingReal
import Proofs.SamplingNested
import Model.SamplingFrames
import Proofs.SamplingFrames
import Model.SamplingCnl
import Proofs.SamplingCnl

open Sampling

namespace C19

/-- **Facts of any accepted sample** (any number type, all partitions, all choices, all outcomes
of the random draws): on a valid partition whose strata contain the chosen alternative,
`sample_alternatives` succeeds and its result lists the chosen alternative first, contains no
alternative twice, contains from every stratum exactly `k` rows, and every row lies in a stratum
and carries that stratum's correction term. -/
theorem protocol_facts {α} [NumOps α] (altIds : List Int) (strata : List Stratum) (chosen : Int)
    (picks : List (List Int))
    (hv : ValidStrata strata) (hocc : altIds.count chosen = 1)
    (hin : ∃ s ∈ strata, chosen ∈ s.subset)
    (hp : picksOK chosen strata picks = true) :
    ∃ rows : List (Int × α),
      sampleAlternatives altIds strata chosen picks = .ok (rows.map fun r => (r.1, some r.2)) ∧
      (∃ lp rest, rows = (chosen, lp) :: rest) ∧
      (rows.map (·.1)).Nodup ∧
      (∀ s ∈ strata, (countIn s (rows.map (·.1)) : Int) = s.k) ∧
      (∀ r ∈ rows, ∃ s ∈ strata, r.1 ∈ s.subset ∧ r.2 = logProba s) := by
  obtain ⟨rows, h1, h2⟩ := sampleAlternatives_protocol (α := α) altIds strata chosen picks hv hocc hin hp
  exact ⟨rows, h1, h2.first, h2.nodup, h2.counts, h2.member⟩

/-- the same packaged as the relation the driver evaluates on every real sample -/
theorem protocol_relation {α} [NumOps α] (altIds : List Int) (strata : List Stratum) (chosen : Int)
    (picks : List (List Int))
    (hv : ValidStrata strata) (hocc : altIds.count chosen = 1)
    (hin : ∃ s ∈ strata, chosen ∈ s.subset)
    (hp : picksOK chosen strata picks = true) :
    ∃ rows : List (Int × α),
      sampleAlternatives altIds strata chosen picks = .ok (rows.map fun r => (r.1, some r.2)) ∧
      Protocol strata chosen rows :=
  sampleAlternatives_protocol altIds strata chosen picks hv hocc hin hp

/-- the Boolean checker run by the driver on real samples decides exactly that relation -/
theorem checker_decides (strata : List Stratum) (chosen : Int) (rows : List (Int × ℝ)) :
    protocolB (fun a b => decide (a = b)) strata chosen rows = true ↔ Protocol strata chosen rows :=
  protocolB_iff _ (fun a b => by simp) strata chosen rows

/-- **the correction term is ln(k/n)** of the row's stratum (over ℝ; the code computes
`log k − log n`) -/
theorem correction_is_log_ratio (strata : List Stratum) (chosen : Int) (rows : List (Int × ℝ))
    (hv : ValidStrata strata) (hne : ∀ s ∈ strata, s.subset ≠ [])
    (hp : Protocol strata chosen rows) :
    ∀ r ∈ rows, ∃ s ∈ strata, r.1 ∈ s.subset ∧
      r.2 = Real.log ((s.k : ℝ) / (s.subset.length : ℝ)) := by
  intro r hr
  obtain ⟨s, hs, h1, h2⟩ := hp.member r hr
  exact ⟨s, hs, h1, by rw [h2]; exact logProba_eq_log_ratio s (hv.kpos s hs) (hne s hs)⟩

/-- **second sample** (`sample_mev_alternatives`): no alternative twice, exactly `k` per stratum,
all in their stratum, weight `n/k`. -/
theorem mev_facts (strata : List Stratum) (picks : List (List Int))
    (hv : ValidStrata strata) (h : mevPicksOK strata picks = true) :
    ((sampleMev (α := ℝ) strata picks).map (·.1)).Nodup ∧
    (∀ s ∈ strata, (countIn s ((sampleMev (α := ℝ) strata picks).map (·.1)) : Int) = s.k) ∧
    (∀ r ∈ sampleMev (α := ℝ) strata picks, ∃ s ∈ strata, r.1 ∈ s.subset ∧
        r.2 = (s.subset.length : ℝ) / (s.k : ℝ)) := by
  obtain ⟨h1, h2, h3⟩ := sampleMev_facts (α := ℝ) strata picks hv.disjoint h
  refine ⟨h1, h2, ?_⟩
  intro r hr
  obtain ⟨s, hs, h4, h5⟩ := h3 r hr
  exact ⟨s, hs, h4, by rw [h5]; exact mevWeight_real s⟩

/-! ### context validation -/

/-- **`check_partition` accepts exactly** the lists of strata that are non-empty, ask for at most
the stratum size, do not ask for zero, and name only known alternatives: an empty stratum,
`k > n`, `k = 0` and an unknown alternative are each refused. -/
theorem context_validation (altIds : List Int) (strata : List Stratum) :
    checkPartition altIds strata = .ok () ↔
      ∀ s ∈ strata, s.subset ≠ [] ∧ s.k ≤ (s.subset.length : Int) ∧ s.k ≠ 0 ∧
        ∀ a ∈ s.subset, a ∈ altIds := by
  rw [checkPartition_ok_iff]
  constructor
  · intro h s hs; exact (checkStratum_ok_iff altIds s).mp (h s hs)
  · intro h s hs; exact (checkStratum_ok_iff altIds s).mpr (h s hs)

/-- The validation does not refuse a negative sample size (the failure comes later, from
pandas, as a `ValueError`); this is why `ValidStrata` asks for `1 ≤ k` separately. -/
theorem negative_size_not_refused :
    checkPartition [1, 2, 3] [⟨[1, 2, 3], -1⟩] = .ok () := by decide

/-- **`Partition`** accepts exactly: no empty segment, pairwise disjoint segments, union equal to
the given full set (the union itself when no full set is given). -/
theorem partition_validity (segments : List (List Int)) (full : Option (List Int)) :
    partitionCheck segments full = .ok () ↔
      (∀ s ∈ segments, s ≠ []) ∧
      segments.Pairwise (fun a b => ∀ x, x ∈ a → x ∉ b) ∧
      sameSetB (unionAll segments) (fullSetOf segments full) = true := by
  unfold partitionCheck
  simp only
  rw [← pairwiseDisjointB_iff]
  generalize fullSetOf segments full = fs
  by_cases h1 : segments.any (fun s => s.isEmpty) = true
  · simp only [h1, if_true, reduceCtorEq, false_iff, not_and]
    intro h; exfalso
    simp only [List.any_eq_true, List.isEmpty_iff] at h1
    obtain ⟨s, hs, he⟩ := h1
    exact h s hs he
  · have h1' : ∀ s ∈ segments, s ≠ [] := by
      intro s hs he
      apply h1
      simp only [List.any_eq_true, List.isEmpty_iff]
      exact ⟨s, hs, he⟩
    simp only [h1]
    by_cases h2 : pairwiseDisjointB segments = true
    · by_cases h3 : sameSetB (unionAll segments) fs = true
      · simp [h2, h3]; exact h1'
      · simp [h2, h3]
    · simp [h2]

/-- what the two validations together give the sampling code: the hypothesis `ValidStrata` of
`protocol_facts` (for non-negative sizes and duplicate-free segments, as Python sets are) -/
theorem validated_context_is_valid (altIds : List Int) (strata : List Stratum)
    (hpart : pairwiseDisjointB (strata.map (·.subset)) = true)
    (hctx : checkPartition altIds strata = .ok ())
    (hset : ∀ s ∈ strata, s.subset.Nodup) (hnonneg : ∀ s ∈ strata, 0 ≤ s.k) :
    ValidStrata strata := by
  refine ⟨hset, ?_, ?_⟩
  · have := (pairwiseDisjointB_iff _).mp hpart
    rw [List.pairwise_map] at this
    exact this
  · intro s hs
    have := ((context_validation altIds strata).mp hctx s hs).2.2.1
    have := hnonneg s hs
    omega

/-! ### combined variables and utilities read the sampled alternative's own attributes -/

/-- the generated column names `f'{col}_{row}'` never collide, whatever the column names -/
theorem column_names_injective (pre c c' : String) (i i' : Nat)
    (h : colKey pre c i = colKey pre c' i') : c = c' ∧ i = i' :=
  colKey_inj pre c c' i i' h

/-- **Combined variable `i`** (the formula with its attributes of alternatives renamed `_i`,
evaluated on the merged row `individual ++ flattened sample ++ tail`) equals the formula
evaluated with every attribute of alternatives read from the row of sampled alternative `i`
itself and every other variable read from the merged row unchanged.  `tail` = second-sample
columns and previously defined variables; it must not shadow a sample column. -/
theorem combined_own_attributes {α} [NumOps α] (altCols cols : List String)
    (ind tail : List (String × α)) (rows : List (List α)) (f : Formula α) (i : Nat)
    (hsub : ∀ c ∈ altCols, c ∈ cols) (hi : i < rows.length)
    (hlen : cols.length ≤ (rows[i]).length)
    (htail : ∀ kv ∈ tail, ∀ c ∈ cols, ∀ j, kv.1 ≠ colKey "" c j) :
    (f.rename (attrsOf altCols f) "" ("_" ++ toString i)).eval
        (lookupLast (ind ++ flattenSample "" cols rows 0 ++ tail))
      = f.eval (fun n => if altCols.contains n then cell cols (rows[i]) n
                         else lookupLast (ind ++ flattenSample "" cols rows 0 ++ tail) n) :=
  rename_reads_row_i altCols cols ind tail rows f i hsub hi hlen htail

/-- utility `i` of the generated model reads, for every attribute (column of the table of
alternatives or combined variable), the column carrying the suffix `_i` and nothing else -/
theorem utility_reads_index_i {α} [NumOps α] (attributes : List String) (u : Formula α) (i : Nat)
    (env : String → Option α) :
    (utilityOf attributes u i).eval env =
      u.eval (fun n => if attributes.contains n then env (colKey "" n i) else env n) := by
  unfold utilityOf
  rw [eval_rename]
  apply eval_congr
  intro n _
  have : "" ++ n ++ ("_" ++ toString i) = colKey "" n i := by simp [colKey, String.append_assoc]
  rw [this]

/-- the tree model renames every occurrence once: `Formula.rename` on a variable is `renameName` -/
theorem rename_var {α} (names : List String) (pre suf n : String) :
    (Formula.var n : Formula α).rename names pre suf = .var (renameName names pre suf n) := by
  unfold Formula.rename renameName
  split <;> rfl

/-- **Witness about the OLD shape of the code only (F-C19-1, fixed in /repo by 883442d).**  Before
that commit `rename_elementary` visited a `Variable` object once per occurrence (`renameVisited`
with 2 visits); with columns `a` and `a_0` in the table of alternatives the second visit renamed it
again, so the combined variable of index 0 read column `a_0_0` (attribute `a_0`) instead of `a_0`
(attribute `a`).  The current code processes each distinct leaf once, which is what the model
(`Formula.rename`, one renaming per occurrence, `rename_var`) states; `renameVisited` is not a model
of the current code and this theorem is kept only to document why one visit per object matters. -/
theorem shared_object_renamed_twice :
    renameVisited ["a", "a_0"] "" "_0" 2 "a" = "a_0_0" ∧
    renameVisited ["a", "a_0"] "" "_0" 1 "a" = "a_0" := by decide

/-- without such a clash of names, visiting a shared object several times is harmless -/
theorem shared_object_harmless (names : List String) (pre suf n : String) (k : Nat)
    (h : names.contains (renameName names pre suf n) = false) :
    renameVisited names pre suf (k + 1) n = renameName names pre suf n := by
  induction k with
  | zero => rfl
  | succ k ih =>
    have step : ∀ m, names.contains m = false → ∀ j, renameVisited names pre suf j m = m := by
      intro m hm j
      induction j with
      | zero => rfl
      | succ j ihj => simp only [renameVisited, renameName, hm]; simpa [renameName, hm] using ihj
    show renameVisited names pre suf (k + 1) (renameName names pre suf n) = _
    exact step _ h (k + 1)

/-! ### full sampling equals the full model (over ℝ) -/

/-- complete sampling: the generated choice set is a permutation of the whole choice set -/
theorem full_sample_perm (strata : List Stratum) (alts : List Int) (chosen : Int)
    (rows : List (Int × ℝ)) (hv : ValidStrata strata) (hcov : Covers strata alts)
    (hfull : ∀ s ∈ strata, s.k = (s.subset.length : Int))
    (hp : Protocol strata chosen rows) : (rows.map (·.1)).Perm alts :=
  full_ids_perm strata alts chosen rows hv hcov hfull hp

/-- complete sampling: every correction term is ln 1 = 0 -/
theorem full_sample_corrections_zero (strata : List Stratum) (chosen : Int) (rows : List (Int × ℝ))
    (hfull : ∀ s ∈ strata, s.k = (s.subset.length : Int))
    (hp : Protocol strata chosen rows) : ∀ r ∈ rows, r.2 = 0 :=
  full_corrections_zero strata chosen rows hfull hp

/-- **FULL-SAMPLE EQUIVALENCE.**  When every stratum is sampled completely, for every result
that follows the protocol (hence for every outcome of the random draws) the log likelihood of
the logit on the sample with corrected utilities equals the logit log likelihood on the full
choice set. -/
theorem full_sample_equiv (strata : List Stratum) (alts : List Int) (chosen : Int)
    (rows : List (Int × ℝ)) (U : Int → ℝ)
    (hv : ValidStrata strata) (hcov : Covers strata alts)
    (hfull : ∀ s ∈ strata, s.k = (s.subset.length : Int))
    (hp : Protocol strata chosen rows) :
    sampledLLAbs U rows = some (fullLL U alts chosen) :=
  full_sample_ll strata alts chosen rows U hv hcov hfull hp

/-- end to end: with complete sampling, whatever the random draws returned, the code's own
result has the full model's log likelihood -/
theorem full_sample_equiv_code (altIds : List Int) (strata : List Stratum) (chosen : Int)
    (picks : List (List Int)) (U : Int → ℝ)
    (hv : ValidStrata strata) (hcov : Covers strata altIds)
    (hfull : ∀ s ∈ strata, s.k = (s.subset.length : Int))
    (hin : chosen ∈ altIds) (hp : picksOK chosen strata picks = true) :
    ∃ rows : List (Int × ℝ),
      sampleAlternatives altIds strata chosen picks = .ok (rows.map fun r => (r.1, some r.2)) ∧
      sampledLLAbs U rows = some (fullLL U altIds chosen) := by
  have hocc : altIds.count chosen = 1 := List.count_eq_one_of_mem hcov.nodup hin
  obtain ⟨rows, h1, h2⟩ := sampleAlternatives_protocol (α := ℝ) altIds strata chosen picks hv hocc
    ((hcov.mem chosen).mp hin) hp
  exact ⟨rows, h1, full_sample_ll strata altIds chosen rows U hv hcov hfull h2⟩

/-! ### the nested logit generated on the sample (`get_nested_logit`) -/

/-- **Every nest reads its own MEV sum.**  The dictionary of MEV sums is keyed by the tuple of
the alternatives of the nest; for valid nests (none empty, pairwise disjoint) the entry read back
for a nest is the sum computed for that very nest, whatever the labels and the nest parameters of
the other nests (any number type, any membership test, any second sample). -/
theorem nest_sum_lookup {α ι} [NumOps α] (mem : List Int → ι → Bool) (mev : List (ι × α × α))
    (nests : List (Nest α)) (hv : ValidNests nests) :
    ∀ n ∈ nests, dictGet (mevSumsDict mem mev nests) n.alts = some (nestMevSum mem mev n) :=
  dictGet_mevSums mem mev nests hv.nonempty hv.disjoint

/-- the engine's `BelongsTo` (comparison of reals) on the number carried by an id column is
membership of the id in the list -/
theorem belongs_is_membership (alts : List Int) (a : Int) :
    belongs alts (Num.int a : ℝ) = alts.contains a := by
  unfold belongs
  rw [Bool.eq_iff_iff]
  simp only [List.any_eq_true, NumR.eq_real, NumR.int_real, List.contains_iff_mem]
  constructor
  · rintro ⟨b, hb, h⟩
    have : b = a := by exact_mod_cast h
    exact this ▸ hb
  · intro h; exact ⟨a, h, rfl⟩

/-- **NESTED FULL-SAMPLE EQUIVALENCE.**  When every stratum of the main partition and of the
second (MEV) partition is sampled completely, for all results that follow the two protocols (hence
for every outcome of the random draws), all valid nests lying in the second partition, all nest
parameters and utilities: the log likelihood of the nested logit generated on the sample equals
the log likelihood of the nested logit (`lognested`) on the full choice set. -/
theorem nested_full_sample_equiv (strata mstrata : List Stratum) (alts : List Int) (chosen : Int)
    (rows mev : List (Int × ℝ)) (U : Int → ℝ) (nests : List (Nest ℝ))
    (hv : ValidStrata strata) (hcov : Covers strata alts)
    (hfull : ∀ s ∈ strata, s.k = (s.subset.length : Int))
    (hp : Protocol strata chosen rows)
    (hmv : ValidStrata mstrata) (hmne : ∀ s ∈ mstrata, s.subset ≠ [])
    (hmfull : ∀ s ∈ mstrata, s.k = (s.subset.length : Int))
    (hmp : MevProtocol mstrata mev)
    (hn : ValidNests nests)
    (hsub : ∀ n ∈ nests, ∀ a ∈ n.alts, ∃ s ∈ mstrata, a ∈ s.subset) :
    nestedSampledLLAbs U nests rows mev = some (fullNestedLL U nests alts chosen) := by
  obtain ⟨h1, h2, h3⟩ := mev_complete mstrata mev hmv hmne hmfull hmp
  refine nested_full_sample_ll strata alts chosen rows mev U nests hv hcov hfull hp hn h1 h2 ?_
  intro n hn' a ha
  obtain ⟨s, hs, h⟩ := hsub n hn' a ha
  exact h3 s hs a h

/-- end to end: with complete sampling of both samples, whatever the random draws returned, the
code's own two samples give the nested logit of the full choice set -/
theorem nested_full_sample_equiv_code (altIds : List Int) (strata mstrata : List Stratum)
    (chosen : Int) (picks mpicks : List (List Int)) (U : Int → ℝ) (nests : List (Nest ℝ))
    (hv : ValidStrata strata) (hcov : Covers strata altIds)
    (hfull : ∀ s ∈ strata, s.k = (s.subset.length : Int))
    (hin : chosen ∈ altIds) (hp : picksOK chosen strata picks = true)
    (hmv : ValidStrata mstrata) (hmne : ∀ s ∈ mstrata, s.subset ≠ [])
    (hmfull : ∀ s ∈ mstrata, s.k = (s.subset.length : Int))
    (hmp : mevPicksOK mstrata mpicks = true)
    (hn : ValidNests nests)
    (hsub : ∀ n ∈ nests, ∀ a ∈ n.alts, ∃ s ∈ mstrata, a ∈ s.subset) :
    ∃ rows : List (Int × ℝ),
      sampleAlternatives altIds strata chosen picks = .ok (rows.map fun r => (r.1, some r.2)) ∧
      nestedSampledLLAbs U nests rows (sampleMev mstrata mpicks)
        = some (fullNestedLL U nests altIds chosen) := by
  have hocc : altIds.count chosen = 1 := List.count_eq_one_of_mem hcov.nodup hin
  obtain ⟨rows, h1, h2⟩ := sampleAlternatives_protocol (α := ℝ) altIds strata chosen picks hv hocc
    ((hcov.mem chosen).mp hin) hp
  obtain ⟨m1, m2, m3⟩ := sampleMev_facts (α := ℝ) mstrata mpicks hmv.disjoint hmp
  exact ⟨rows, h1, nested_full_sample_equiv strata mstrata altIds chosen rows _ U nests hv hcov hfull h2
    hmv hmne hmfull ⟨m1, m2, m3⟩ hn hsub⟩

/-! ### row labels of the input frames are not row positions (round 3)

The frames of individuals and of alternatives carry whatever index the user's pandas manipulations
left (a permutation of 0..N-1 after `sort_values` / `sample(frac=1)`, gaps after a filter, repeats
after `pd.concat`, strings).  The labels are a parameter of the model; the theorems quantify over
all of them. -/

/-- **The labels of a returned sample frame are its positions.**  Whatever labels the rows of the
table of alternatives carried into the pieces, after `ignore_index=True` the stacked frame is the
row-major flattening with row numbers 0, 1, 2, … — the form `combined_own_attributes` and the
generated model (`utility_reads_index_i`) read. -/
theorem sample_frame_labels_are_positions {α ι : Type} (pre : String) (cols : List String)
    (f : List (ι × List α)) :
    stackDict pre cols (ignoreIndex f) = flattenSample pre cols (f.map (·.2)) 0 :=
  stackDict_relabelFrom pre cols f 0

/-- why the relabelling matters: a frame that kept the labels of the table of alternatives (the
chosen alternative sits at label 2 of the table, the drawn rows are labelled 0, 1, 2) binds the
name `id_2` twice and `id_3` never; relabelled, position 0 is the chosen alternative -/
theorem kept_labels_collide :
    lookupLast (stackDict (α := Nat) "" ["id"] [(2, [17]), (0, [4]), (1, [9]), (2, [30])]) "id_2" = some 30 ∧
    lookupLast (stackDict (α := Nat) "" ["id"] [(2, [17]), (0, [4]), (1, [9]), (2, [30])]) "id_3" = none ∧
    lookupLast (stackDict (α := Nat) "" ["id"]
      (ignoreIndex [(2, [17]), (0, [4]), (1, [9]), (2, [30])])) "id_0" = some 17 := by decide

/-- **The drawn rows are rows of the table, found by id, whatever the labels.**  Every row handed
over for the picked ids is a row of the table of alternatives (its own attributes intact) whose id
was picked; when the picked ids occur once in the table the rows come in the order picked; and
relabelling the table (any function of the labels) changes nothing but the labels. -/
theorem sampled_rows_own_attributes {α ι κ : Type} (alts : List (ι × Int × List α)) (ids : List Int) :
    (∀ r ∈ rowsOfIds alts ids, r ∈ alts ∧ r.2.1 ∈ ids) ∧
    ((∀ a ∈ ids, (alts.map (·.2.1)).count a = 1) → (rowsOfIds alts ids).map (·.2.1) = ids) ∧
    (∀ g : ι → κ, (rowsOfIds (alts.map fun r => (g r.1, r.2)) ids).map (·.2)
        = (rowsOfIds alts ids).map (·.2)) := by
  refine ⟨fun r hr => rowsOfIds_mem alts ids r hr, rowsOfIds_ids alts ids, ?_⟩
  intro g
  rw [rowsOfIds_relabel, List.map_map]
  rfl

/-- **MERGED TABLE, BY POSITION.**  For every index of the individuals and every outcome of the
random draws: row number `p` of the table built by `sample_and_merge` carries the label and the
cells of individual number `p` followed by the flattened samples drawn by call number `p` — the
call that received that individual's choice. -/
theorem merged_table_by_position {α ι κ : Type} (inds : List (ι × List (String × α)))
    (pieces : List (Drawn κ α)) :
    applyRows inds (pieces.map Drawn.concat)
      = List.zipWith (fun r d => (r.1, flattenRow r.2 d.cols (d.main.map (·.2)) d.mevCols (d.mev.map (·.2))))
          inds pieces :=
  applyRows_concat inds pieces

/-- one row of it -/
theorem merged_row_own_sample {α ι : Type} (inds : List (ι × List (String × α)))
    (ds : List (Drawn Nat α)) (p : Nat) (r : ι × List (String × α)) (d : Drawn Nat α)
    (hr : inds[p]? = some r) (hd : ds[p]? = some d) :
    (applyRows inds ds)[p]? = some (r.1, processRowL r.2 d) :=
  applyRows_get inds ds p r d hr hd

/-- **The index of the individuals is irrelevant**: relabelling the individuals (permuting,
shifting, repeating labels — any function of the labels) leaves the cells of the merged table,
row by row, unchanged. -/
theorem merge_ignores_labels {α ι κ : Type} (g : ι → κ) (inds : List (ι × List (String × α)))
    (ds : List (Drawn Nat α)) :
    (applyRows (inds.map fun r => (g r.1, r.2)) ds).map (·.2) = (applyRows inds ds).map (·.2) := by
  rw [applyRows_relabel, List.map_map]
  rfl

/-- **In merged row `p` the column `<id>_0` is the id cell of the first row of the sample drawn
for individual `p`** (the chosen alternative, by `protocol_facts`), for every index of the
individuals.  The second-sample columns carry the prefix `_MEV_`; they must not shadow the name
(true unless the id column itself is called `_MEV_…`). -/
theorem merged_row_lists_choice_first {α ι κ : Type} [NumOps α] (inds : List (ι × List (String × α)))
    (pieces : List (Drawn κ α)) (p : Nat) (r : ι × List (String × α)) (d : Drawn κ α)
    (m0 : κ × List α) (rest : List (κ × List α)) (idCol : String)
    (hr : inds[p]? = some r) (hd : pieces[p]? = some d) (hmain : d.main = m0 :: rest)
    (hc : idCol ∈ d.cols) (hlen : d.cols.length ≤ m0.2.length)
    (hmev : ∀ kv ∈ flattenSample "_MEV_" d.mevCols (d.mev.map (·.2)) 0, kv.1 ≠ colKey "" idCol 0) :
    ∃ row, (applyRows inds (pieces.map Drawn.concat))[p]? = some (r.1, row) ∧
      lookupLast row (colKey "" idCol 0) = cell d.cols m0.2 idCol := by
  refine ⟨processRowL r.2 d.concat, applyRows_get _ _ p r d.concat hr (by simp [hd]), ?_⟩
  rw [processRowL_concat, flattenRow, lookupLast_append, lookupLast_none _ _ hmev, lookupLast_append, hmain]
  have := lookupLast_flattenSample "" d.cols (m0.2 :: rest.map (·.2)) 0 0 idCol (keysInj _ _) hc (by simp)
  simp only [Nat.add_zero, List.getElem_cons_zero] at this
  simp only [List.map_cons, this]
  obtain ⟨w, hw⟩ := cell_isSome d.cols m0.2 idCol hc hlen
  rw [hw]

/-! ### `generate_segment_size` (helper producing the sample sizes of a partition) -/

/-- an accepted call returns one size per segment, summing to the requested total (so the choice
set built from them has exactly the requested number of alternatives), all equal to the quotient or
the quotient plus one, the larger ones first -/
theorem segment_sizes_cover (n m : Int) (l : List Int) (h : generateSegmentSize n m = .ok l) :
    0 ≤ n ∧ 0 < m ∧ (l.length : Int) = m ∧ l.sum = n ∧
      (∀ x ∈ l, x = n / m ∨ x = n / m + 1) ∧ l.Pairwise (fun a b => b ≤ a) :=
  generateSegmentSize_ok n m l h

/-- it refuses exactly a negative total and a non-positive number of segments -/
theorem segment_sizes_refusals (n m : Int) :
    (generateSegmentSize n m = .error .negativeSample ↔ n < 0) ∧
    (generateSegmentSize n m = .error .nonPositiveSegments ↔ 0 ≤ n ∧ m ≤ 0) := by
  unfold generateSegmentSize
  by_cases h1 : n < 0
  · simp [h1]
  · by_cases h2 : m ≤ 0
    · simp [h1, h2]; omega
    · simp [h1, h2]

/-! ### the cross-nested logit generated on the sample (`get_cross_nested_logit`, round 3) -/

/-- **Every nest reads its own MEV sum** from the dictionary keyed by the NAME of the nest, when
the names are pairwise distinct (any number type, any second sample). -/
theorem cnl_sum_lookup {α} [NumOps α] (nests : List (CnlCol α)) (mev : List (α × α))
    (hd : (nests.map (·.name)).Nodup) :
    ∀ n ∈ nests, lookupLast (cnlSumsDict nests mev) n.name = some (cnlSumOf n mev) :=
  lookupLast_cnlSums nests mev hd

/-- **Known finding F-C19-3 (code before the proposed repair).**  Two nests carrying the same
name are accepted by the context; the second assignment of the key wins and the first nest reads
the MEV sum of the second one.  The repaired context refuses such nests (hypothesis `names` of
`ValidCnl`). -/
theorem cnl_same_name_reads_other_sum {α} [NumOps α] (m n : CnlCol α) (mev : List (α × α))
    (h : m.name = n.name) :
    lookupLast (cnlSumsDict [m, n] mev) m.name = some (cnlSumOf n mev) :=
  lookupLast_cnlSums_same_name m n mev h

/-- **CROSS-NESTED FULL-SAMPLE EQUIVALENCE.**  When every stratum of the main partition and of the
second (MEV) partition is sampled completely, for all results that follow the two protocols (hence
for every outcome of the random draws), all valid cross-nested nests (distinct names, non-zero
alphas and nest parameters) whose alternatives lie in the second partition and all utilities: the log
likelihood of the cross-nested logit generated on the sample equals the log likelihood of
`models.logcnl` on the full choice set. -/
theorem cnl_full_sample_equiv (strata mstrata : List Stratum) (alts : List Int) (chosen : Int)
    (rows mev : List (Int × ℝ)) (U : Int → ℝ) (nests : List (CnlNest ℝ))
    (hv : ValidStrata strata) (hcov : Covers strata alts)
    (hfull : ∀ s ∈ strata, s.k = (s.subset.length : Int))
    (hp : Protocol strata chosen rows)
    (hmv : ValidStrata mstrata) (hmne : ∀ s ∈ mstrata, s.subset ≠ [])
    (hmfull : ∀ s ∈ mstrata, s.k = (s.subset.length : Int))
    (hmp : MevProtocol mstrata mev)
    (hn : ValidCnl nests)
    (hsub : ∀ n ∈ nests, ∀ a ∈ n.alpha.map (·.1), ∃ s ∈ mstrata, a ∈ s.subset) :
    cnlSampledLLAbs U nests rows mev = some (fullCnlLL U nests alts chosen) := by
  obtain ⟨h1, h2, h3⟩ := mev_complete mstrata mev hmv hmne hmfull hmp
  refine cnl_full_sample_ll strata alts chosen rows mev U nests hv hcov hfull hp hn h1 h2 ?_
  intro n hn' a ha
  obtain ⟨s, hs, h⟩ := hsub n hn' a ha
  exact h3 s hs a h

/-- end to end: with complete sampling of both samples, whatever the random draws returned, the
code's own two samples give the cross-nested logit of the full choice set -/
theorem cnl_full_sample_equiv_code (altIds : List Int) (strata mstrata : List Stratum)
    (chosen : Int) (picks mpicks : List (List Int)) (U : Int → ℝ) (nests : List (CnlNest ℝ))
    (hv : ValidStrata strata) (hcov : Covers strata altIds)
    (hfull : ∀ s ∈ strata, s.k = (s.subset.length : Int))
    (hin : chosen ∈ altIds) (hp : picksOK chosen strata picks = true)
    (hmv : ValidStrata mstrata) (hmne : ∀ s ∈ mstrata, s.subset ≠ [])
    (hmfull : ∀ s ∈ mstrata, s.k = (s.subset.length : Int))
    (hmp : mevPicksOK mstrata mpicks = true)
    (hn : ValidCnl nests)
    (hsub : ∀ n ∈ nests, ∀ a ∈ n.alpha.map (·.1), ∃ s ∈ mstrata, a ∈ s.subset) :
    ∃ rows : List (Int × ℝ),
      sampleAlternatives altIds strata chosen picks = .ok (rows.map fun r => (r.1, some r.2)) ∧
      cnlSampledLLAbs U nests rows (sampleMev mstrata mpicks)
        = some (fullCnlLL U nests altIds chosen) := by
  have hocc : altIds.count chosen = 1 := List.count_eq_one_of_mem hcov.nodup hin
  obtain ⟨rows, h1, h2⟩ := sampleAlternatives_protocol (α := ℝ) altIds strata chosen picks hv hocc
    ((hcov.mem chosen).mp hin) hp
  obtain ⟨m1, m2, m3⟩ := sampleMev_facts (α := ℝ) mstrata mpicks hmv.disjoint hmp
  exact ⟨rows, h1, cnl_full_sample_equiv strata mstrata altIds chosen rows _ U nests hv hcov hfull h2
    hmv hmne hmfull ⟨m1, m2, m3⟩ hn hsub⟩

/-! ### non-vacuity -/

def exStrata : List Stratum := [⟨[4, 17, 2], 2⟩, ⟨[30, 9, 11], 3⟩]
def exAlts : List Int := [30, 4, 17, 9, 2, 11]

example : ValidStrata exStrata :=
  ⟨by decide, by decide, by decide⟩
example : picksOK 17 exStrata [[2], [11, 9, 30]] = true := by decide
example : exAlts.count 17 = 1 := by decide
example : checkPartition exAlts exStrata = .ok () := by decide
example : partitionCheck (exStrata.map (·.subset)) (some exAlts) = .ok () := by decide
example : checkPartition exAlts [⟨[], 1⟩] = .error .emptyStratum := by decide
example : checkPartition exAlts [⟨[4, 17], 3⟩] = .error .tooMany := by decide
example : checkPartition exAlts [⟨[4, 17], 0⟩] = .error .zeroSample := by decide
example : checkPartition exAlts [⟨[4, 99], 1⟩] = .error .unknownAlt := by decide
example : partitionCheck [[1, 2], [2, 3]] none = .error .overlap := by decide
example : partitionCheck [[1, 2], [3]] (some [1, 2, 3, 4]) = .error .unionMismatch := by decide
/-- complete sampling of the example -/
def exFull : List Stratum := [⟨[4, 17, 2], 3⟩, ⟨[30, 9, 11], 3⟩]
example : ValidStrata exFull := ⟨by decide, by decide, by decide⟩
example : Covers exFull exAlts :=
  ⟨by decide, fun a => by simp [exAlts, exFull]; omega⟩
example : ∀ s ∈ exFull, s.k = (s.subset.length : Int) := by decide
example : picksOK 17 exFull [[2, 4], [11, 9, 30]] = true := by decide
/-- the structural facts on a concrete outcome (integers as numbers) -/
example : (flattenSample (α := Nat) "" ["id", "cost"] [[17, 30], [2, 5]] 0).map (·.1)
    = ["id_0", "cost_0", "id_1", "cost_1"] := by decide

/-- nests and a complete second sample -/
def exNests : List (Nest Int) := [⟨2, [17, 4]⟩, ⟨3, [11, 30, 9]⟩]
example : ValidNests exNests := ⟨by decide, by decide, by decide⟩
def exMevFull : List Stratum := [⟨[4, 9, 17], 3⟩, ⟨[30, 11, 2], 3⟩]
example : ValidStrata exMevFull := ⟨by decide, by decide, by decide⟩
example : mevPicksOK exMevFull [[9, 17, 4], [2, 30, 11]] = true := by decide
example : ∀ a ∈ (exNests.map (·.alts)).flatten, ∃ s ∈ exMevFull, a ∈ s.subset := by decide
/-- reading the dictionary: the key is the tuple of alternatives, the last assignment wins -/
example : dictGet (α := Nat) [([17, 4], 5), ([11, 30, 9], 7)] [11, 30, 9] = some 7 ∧
    dictGet (α := Nat) [([17, 4], 5), ([11, 30, 9], 7)] [17, 4] = some 5 ∧
    dictGet (α := Nat) [([17, 4], 5), ([17, 4], 6)] [17, 4] = some 6 ∧
    dictGet (α := Nat) [([17, 4], 5)] [4, 17] = none := by decide

/-- labelled frames: individuals indexed by a permutation, samples whose pieces kept labels -/
def exInds : List (Int × List (String × Nat)) := [(2, [("choice", 17)]), (0, [("choice", 30)]), (1, [("choice", 2)])]
def exPieces : List (Drawn String Nat) :=
  [⟨["id"], [("c", [17]), ("a", [4])], [], []⟩, ⟨["id"], [("f", [30]), ("a", [9])], [], []⟩,
   ⟨["id"], [("e", [2]), ("b", [11])], ["id"], [("x", [9])]⟩]
example : (applyRows exInds (exPieces.map Drawn.concat)).map (·.1) = [2, 0, 1] ∧
    (applyRows exInds (exPieces.map Drawn.concat))[2]? =
      some (1, [("choice", 2), ("id_0", 2), ("id_1", 11), ("_MEV_id_0", 9)]) := by decide
example : rowsOfIds [("x", 30, [1]), ("y", 4, [2]), ("x", 17, [3])] [17, 30] = [("x", 17, [3]), ("x", 30, [1])] := by decide
example : generateSegmentSize 10 3 = .ok [4, 3, 3] ∧ generateSegmentSize 2 5 = .ok [1, 1, 0, 0, 0] ∧
    generateSegmentSize 0 2 = .ok [0, 0] ∧ generateSegmentSize (-1) 2 = .error .negativeSample ∧
    generateSegmentSize 3 0 = .error .nonPositiveSegments := by decide

/-- cross-nested nests over the example: alternative 4 in both nests, 2 alone -/
noncomputable def exCnl : List (CnlNest ℝ) :=
  [⟨1.5, "n0", [(17, 1), (4, 0.5)]⟩, ⟨2, "n1", [(4, 0.5), (30, 1), (9, 1), (11, 1)]⟩]
example : ValidCnl exCnl := by
  refine ⟨by simp [exCnl], ?_, ?_, ?_⟩
  · intro n hn
    simp only [exCnl, List.mem_cons, List.not_mem_nil, or_false] at hn
    rcases hn with rfl | rfl <;> decide
  · intro n hn p hp
    simp only [exCnl, List.mem_cons, List.not_mem_nil, or_false] at hn
    rcases hn with rfl | rfl <;>
      (simp only [List.mem_cons, List.not_mem_nil, or_false] at hp
       rcases hp with rfl | rfl | rfl | rfl <;> norm_num)
  · intro n hn
    simp only [exCnl, List.mem_cons, List.not_mem_nil, or_false] at hn
    rcases hn with rfl | rfl <;> norm_num
example : ∀ n ∈ exCnl, ∀ a ∈ n.alpha.map (·.1), ∃ s ∈ exMevFull, a ∈ s.subset := by
  intro n hn
  simp only [exCnl, List.mem_cons, List.not_mem_nil, or_false] at hn
  rcases hn with rfl | rfl <;> decide
/-- distinct names (hypothesis of `cnl_sum_lookup`) on a concrete pair of nests -/
example : (([⟨2, "n0", [1, 0]⟩, ⟨3, "n1", [0, 1]⟩] : List (CnlCol ℝ)).map (·.name)).Nodup := by simp

end C19
