/-
C20 — every deprecated name behaves exactly like the function it points users to.
Property theorems only (model: Model/Dispatch.lean, lemmas: Proofs/Dispatch.lean; the table
regenerated from the live package and its `decide` obligations are in Generated/Aliases.lean).

`H` ranges over *all* class hierarchies (any classes, any linearisations, any `__dict__`s),
`c` over all receiver classes, `captured` over all function objects: nothing below is proved
by enumeration.  "Which function object runs" is the whole observable of the dispatch: both
branches of the wrapper pass the positional and keyword arguments on unchanged.

Round 3 (model: Model/DeprecWorld.lean): the wrappers as transformers of the process state
(`World σ`: warning filters, default action, registries, delivered warnings and `rest : σ` =
everything else), for ANY behaviour `sem` of the function objects: the old name is the warning
followed by exactly the call of the new name, and the warning touches nothing but the warning
log (`alias_is_warning_then_new`, `warn_touches_only_the_warning_log`, …, `kw_is_warnings_then_call`);
overrides at any depth of the hierarchy (`override_anywhere_honoured`).
-/
import Model.Dispatch
import Model.DeprecWorld
import Proofs.Dispatch

open Disp

namespace C20

/-- **The repaired wrapper is the call of the new name on the receiver, for all
hierarchies** — including receivers whose class (or any class before the defining one in the
mro) redefines the replacement: whenever the captured function is found in the receiver's mro
the alias runs exactly what `receiver.new_name(...)` runs, and that attribute exists. -/
theorem dynamic_sound (H : Hier) (c : ClassId) (newName : NameId) (captured : ImplId)
    (h : foundInMro H c newName captured = true) :
    aliasCall H c newName captured = callNew H c newName ∧ callNew H c newName ≠ none := by
  refine ⟨by simp [aliasCall, h, callNew], ?_⟩
  exact foundAlong_lookup H newName captured _ h

/-- **Every subclass, present or future**: if the class `d` that holds the alias also holds the
captured replacement under the new name (what `aliases_ok` checks for every definition of the
package), then on a receiver of *any* class `c` having `d` in its mro - whatever `c` and the
classes between them define or redefine - the alias runs exactly what the new name runs. -/
theorem inherited_alias_sound (H : Hier) (c d : ClassId) (newName : NameId) (captured : ImplId)
    (hd : classGet H d newName = some captured) (hmro : d ∈ mroOf H c) :
    aliasCall H c newName captured = callNew H c newName ∧ callNew H c newName ≠ none :=
  dynamic_sound H c newName captured (foundAlong_of_mem H newName captured d hd _ hmro)

/-- **Exact condition for the repaired wrapper**: it agrees with the new name iff the captured
function is found in the receiver's mro, or the new name resolves to the captured function
anyway. -/
theorem wrapper_sound_iff (H : Hier) (c : ClassId) (newName : NameId) (captured : ImplId) :
    aliasCall H c newName captured = callNew H c newName ↔
      (foundInMro H c newName captured = true ∨ resolve H c newName = some captured) := by
  unfold aliasCall callNew
  cases hf : foundInMro H c newName captured with
  | true => simp
  | false =>
    simp only [Bool.false_eq_true, if_false, false_or]
    exact ⟨fun h => h.symm, fun h => h.symm⟩

/-- **Exact condition for the old captured-call semantics** (the wrapper before the repair):
right iff the new name, looked up on the receiver, is the captured function itself. -/
theorem captured_sound_iff (H : Hier) (c : ClassId) (newName : NameId) (captured : ImplId) :
    aliasCaptured H c newName captured = callNew H c newName ↔
      resolve H c newName = some captured := by
  unfold aliasCaptured callNew
  exact ⟨fun h => h.symm, fun h => h.symm⟩

/-- **When exactly the old semantics differs**, given the captured function is somewhere in
the receiver's mro: iff the first class of the mro that defines the new name maps it to
another function (an override standing before the class that holds the captured one). -/
theorem captured_differs_iff_overridden (H : Hier) (c : ClassId) (newName : NameId)
    (captured : ImplId) (hf : foundInMro H c newName captured = true) :
    aliasCaptured H c newName captured ≠ callNew H c newName ↔
      ∃ pre k post other, mroOf H c = pre ++ k :: post ∧
        (∀ p ∈ pre, classGet H p newName = none) ∧ classGet H k newName = some other ∧
        other ≠ captured := by
  have hne := foundAlong_lookup H newName captured _ hf
  unfold aliasCaptured callNew resolve
  constructor
  · intro h
    cases hr : lookupAlong H newName (mroOf H c) with
    | none => exact absurd hr hne
    | some other =>
      obtain ⟨pre, k, post, h1, h2, h3⟩ := (lookupAlong_eq_some H newName other _).mp hr
      refine ⟨pre, k, post, other, h1, h2, h3, ?_⟩
      intro e
      apply h
      rw [hr, e]
  · rintro ⟨pre, k, post, other, h1, h2, h3, h4⟩ h
    have := (lookupAlong_eq_some H newName other _).mpr ⟨pre, k, post, h1, h2, h3⟩
    rw [this] at h
    cases h
    exact h4 rfl

/-- **A subclass that redefines the replacement and inherits the alias** gets its own
implementation through the alias (the old wrapper ran the base implementation). -/
theorem subclass_override_honoured (H : Hier) (c : ClassId) (rest : List ClassId)
    (newName : NameId) (captured own : ImplId) (hmro : mroOf H c = c :: rest)
    (hown : classGet H c newName = some own)
    (hf : foundInMro H c newName captured = true) :
    aliasCall H c newName captured = some own ∧
      aliasCaptured H c newName captured = some captured := by
  refine ⟨?_, rfl⟩
  simp [aliasCall, hf, resolve, hmro, lookupAlong, hown]

/-- the repair changes nothing where the old semantics was right -/
theorem repaired_agrees_when_not_overridden (H : Hier) (c : ClassId) (newName : NameId)
    (captured : ImplId) (h : resolve H c newName = some captured) :
    aliasCall H c newName captured = aliasCaptured H c newName captured := by
  unfold aliasCall aliasCaptured
  split
  · exact h
  · rfl

/-- **Keyword renaming**: writing some keyword arguments under their obsolete spelling gives
the decorated function exactly the keyword arguments written under the current names, in the
same order, with one warning per obsolete spelling; writing them under the current names
changes nothing and warns about nothing.  (`Entry.ok`: an obsolete spelling is mapped to the
key; hypothesis `Nodup`: the call does not give the same parameter twice.) -/
theorem rename_old_equals_new {V : Type} (m : KwMap) (es : List (Entry V)) (hok : ∀ e ∈ es, e.ok m)
    (hn : (es.map (·.key)).Nodup) :
    renameKwargs m (es.map Entry.written) = (es.map Entry.current, obsoleteCount es) := by
  have := renameLoop_entries m es [] 0 hok (by simpa [keysOf] using hn)
  simpa [renameKwargs] using this

theorem rename_new_is_identity {V : Type} (m : KwMap) (kw : List (NameId × V))
    (hnot : ∀ p ∈ kw, mapGet m p.1 = none) (hn : (kw.map (·.1)).Nodup) :
    renameKwargs m kw = (kw, 0) := by
  let es : List (Entry V) := kw.map fun p => ⟨none, p.1, p.2⟩
  have h1 : es.map Entry.written = kw := by
    simp [es, Entry.written, List.map_map, Function.comp_def]
  have h2 : es.map Entry.current = kw := by
    simp [es, Entry.current, List.map_map, Function.comp_def]
  have h3' : ∀ l : List (NameId × V),
      obsoleteCount (l.map fun p => (⟨none, p.1, p.2⟩ : Entry V)) = 0 := by
    intro l
    induction l with
    | nil => rfl
    | cons p t ih => simp [obsoleteCount, ih]
  have h3 : obsoleteCount es = 0 := h3' kw
  have hok : ∀ e ∈ es, e.ok m := by
    intro e he
    simp only [es, List.mem_map] at he
    obtain ⟨p, hp, rfl⟩ := he
    exact hnot p hp
  have hk : (es.map (·.key)).Nodup := by
    simpa [es, List.map_map, Function.comp_def] using hn
  have := rename_old_equals_new m es hok hk
  rw [h1, h2, h3] at this
  exact this

/-- an obsolete keyword whose target is `None` is dropped (with a warning) -/
theorem rename_ignored {V : Type} (m : KwMap) (o : NameId) (v : V) (h : mapGet m o = some none) :
    renameKwargs m [(o, v)] = ([], 1) := by
  simp [renameKwargs, renameLoop, h]

/-- **Lifting the generated table**: if the table check succeeds, then for every alias
definition that is not a listed known finding — (1) the warning names the function that is
actually called and that name, looked up where the alias lives, is that function; (2) on every
class of the table that exposes the alias as a method, the alias runs exactly what the new name
runs on that receiver, and the new name exists there. -/
theorem table_sound (H : Hier) (al : List Alias) (bad : List (ClassId × NameId))
    (hchk : checkAliases H al bad = true) (a : Alias) (ha : a ∈ al)
    (hgood : isKnownBad bad a.owner a.oldName = false) :
    (a.newName = a.capturedName ∧ classGet H a.owner a.newName = some a.captured) ∧
    ∀ c ∈ H, exposes H c a = true → a.isModule = false → a.isStatic = false →
      aliasCall H c.id a.newName a.captured = callNew H c.id a.newName ∧
        callNew H c.id a.newName ≠ none := by
  unfold checkAliases at hchk
  have h1 := List.all_eq_true.mp hchk a ha
  simp only [hgood, Bool.false_or, Bool.and_eq_true] at h1
  obtain ⟨hdef, hall⟩ := h1
  constructor
  · simpa [aliasDefOK] using hdef
  · intro c hc hexp hm hs
    have := List.all_eq_true.mp hall c hc
    simp only [hexp, Bool.not_true, Bool.false_or, slotOK, hm, hs] at this
    exact dynamic_sound H c.id a.newName a.captured this

/-! ### round 3: overrides at any depth; the state of the process around the call -/

/-- **Override at any level of a hierarchy of any depth** (intermediate class, leaf, several of
them): whatever stands in the receiver's mro, if `k` is the first class of it that defines the new
name (the classes `pre` before it — the receiver's own class included when `pre ≠ []` — do not),
the alias runs `k`'s implementation, which is what `receiver.new_name` runs. -/
theorem override_anywhere_honoured (H : Hier) (c : ClassId) (pre post : List ClassId) (k : ClassId)
    (newName : NameId) (captured own : ImplId) (hmro : mroOf H c = pre ++ k :: post)
    (hpre : ∀ p ∈ pre, classGet H p newName = none) (hown : classGet H k newName = some own)
    (hf : foundInMro H c newName captured = true) :
    aliasCall H c newName captured = some own ∧ callNew H c newName = some own := by
  have hr : resolve H c newName = some own :=
    (lookupAlong_eq_some H newName own _).mpr ⟨pre, k, post, hmro, hpre, hown⟩
  exact ⟨by simp [aliasCall, hf, hr], hr⟩

/-- three levels, the redefinition sits in the intermediate class: the code's wrapper follows it,
a wrapper looking only at the receiver's own class runs the base implementation -/
def H₃ : Hier :=
  [⟨0, [0], [(1, 10), (2, 20)]⟩,          -- Base: get_value, alias getValue
   ⟨1, [1, 0], [(1, 11)]⟩,                 -- Mid(Base) redefines get_value
   ⟨2, [2, 1, 0], []⟩,                     -- Leaf(Mid) defines nothing
   ⟨3, [3, 2, 1, 0], [(1, 13)]⟩]           -- Leaf2(Leaf) redefines it again

theorem shallow_lookup_is_wrong_on_inherited_override :
    aliasCall H₃ 2 1 10 = some 11 ∧ callNew H₃ 2 1 = some 11 ∧ aliasShallow H₃ 2 1 10 = some 10 := by
  decide

example : aliasCall H₃ 3 1 10 = some 13 ∧ callNew H₃ 3 1 = some 13 := by decide
example : (override_anywhere_honoured H₃ 2 [2] [0] 1 1 10 11 (by decide) (by decide) (by decide)
    (by decide)).1 = (by decide : aliasCall H₃ 2 1 10 = some 11) := rfl

/-- **Calling the old name = emitting the warning, then exactly the call of the new name** on the
state the warning leaves, for ANY behaviour `sem` of the function objects and ANY state of the
process — result, exception and final state (filters, registries, everything in `rest`) included. -/
theorem alias_is_warning_then_new {σ ρ α} (sem : ImplId → α → World σ → Res σ ρ) (H : Hier)
    (c : ClassId) (newName : NameId) (captured : ImplId) (msg : MsgId) (args : α) (w : World σ)
    (h : foundInMro H c newName captured = true) :
    runAlias false sem H c newName captured msg args w =
      match warn w msg with
      | (true, w') => .raised (.deprecationWarning msg) w'
      | (false, w') => runNew sem H c newName args w' := by
  have hd := (dynamic_sound H c newName captured h).1
  unfold runAlias runNew
  rw [hd]
  simp only [Bool.false_eq_true, if_false]
  rcases hw : warn w msg with ⟨b, w'⟩
  cases b <;> simp only []

/-- **The warning adds nothing but the warning**: `warnings.warn` leaves the filters, the default
action and all the rest of the process as they were; it delivers at most this one warning and
records at most this one key. -/
theorem warn_touches_only_the_warning_log {σ} (w : World σ) (m : MsgId) :
    (warn w m).2.filters = w.filters ∧ (warn w m).2.defaultAction = w.defaultAction ∧
    (warn w m).2.rest = w.rest ∧
    ((warn w m).2.shown = w.shown ∨ (warn w m).2.shown = w.shown ++ [m]) ∧
    ((warn w m).2.registry = w.registry ∨ (warn w m).2.registry = m :: w.registry) := by
  unfold warn
  cases firstAction w.filters w.defaultAction <;> simp <;> split <;> simp

/-- a user's `ignore` setting is respected: no exception, nothing shown, nothing recorded … -/
theorem warn_ignored {σ} (w : World σ) (m : MsgId) (h : firstAction w.filters w.defaultAction = .ignore) :
    warn w m = (false, w) := by
  simp [warn, h]

/-- … and a user's `error` setting turns the warning into the exception before anything runs -/
theorem warn_error {σ} (w : World σ) (m : MsgId) (h : firstAction w.filters w.defaultAction = .error) :
    warn w m = (true, w) := by
  simp [warn, h]

/-- under an `ignore` filter the old name IS the new name: same result, same final state -/
theorem alias_under_ignore_is_new {σ ρ α} (sem : ImplId → α → World σ → Res σ ρ) (H : Hier)
    (c : ClassId) (newName : NameId) (captured : ImplId) (msg : MsgId) (args : α) (w : World σ)
    (h : foundInMro H c newName captured = true)
    (hi : firstAction w.filters w.defaultAction = .ignore) :
    runAlias false sem H c newName captured msg args w = runNew sem H c newName args w := by
  rw [alias_is_warning_then_new sem H c newName captured msg args w h, warn_ignored w msg hi]

/-- under an `error` filter nothing runs and nothing changes -/
theorem alias_under_error_raises {σ ρ α} (sem : ImplId → α → World σ → Res σ ρ) (H : Hier)
    (c : ClassId) (newName : NameId) (captured : ImplId) (msg : MsgId) (args : α) (w : World σ)
    (he : firstAction w.filters w.defaultAction = .error) :
    runAlias (ρ := ρ) false sem H c newName captured msg args w = .raised (.deprecationWarning msg) w := by
  simp [runAlias, warn_error w msg he]

/-- the `RAISE_EXCEPTION` switch: nothing runs, nothing is emitted, nothing changes -/
theorem alias_raise_switch {σ ρ α} (sem : ImplId → α → World σ → Res σ ρ) (H : Hier)
    (c : ClassId) (newName : NameId) (captured : ImplId) (msg : MsgId) (args : α) (w : World σ) :
    runAlias (ρ := ρ) true sem H c newName captured msg args w = .raised .biogemeDeprecated w := by
  simp [runAlias]

/-- several warnings (the keyword wrapper): filters, default action and the rest untouched -/
theorem warnMany_touches_only_the_warning_log {σ} (ms : List MsgId) : ∀ (w : World σ),
    (warnMany w ms).2.filters = w.filters ∧ (warnMany w ms).2.defaultAction = w.defaultAction ∧
    (warnMany w ms).2.rest = w.rest := by
  induction ms with
  | nil => intro w; simp [warnMany]
  | cons m t ih =>
    intro w
    have h1 := warn_touches_only_the_warning_log w m
    unfold warnMany
    rcases hw : warn w m with ⟨b, w'⟩
    rw [hw] at h1
    cases b
    · simp only []
      have := ih w'
      exact ⟨this.1.trans h1.1, this.2.1.trans h1.2.1, this.2.2.trans h1.2.2.1⟩
    · exact ⟨h1.1, h1.2.1, h1.2.2.1⟩

/-- **Obsolete keywords add nothing but their warnings**: the decorated function receives the
renamed keyword arguments (`rename_old_equals_new`) in a process whose filters, default action and
remaining state are those before the call; when a warning is turned into an exception the function
does not run. -/
theorem kw_is_warnings_then_call {σ ρ V : Type} (m : KwMap) (msgOf : NameId → MsgId)
    (f : List (NameId × V) → World σ → Res σ ρ) (kw : List (NameId × V)) (w : World σ) :
    ∃ w', w'.filters = w.filters ∧ w'.defaultAction = w.defaultAction ∧ w'.rest = w.rest ∧
      (runKw m msgOf f kw w = f (renameKwargs m kw).1 w' ∨
        ∃ bad, runKw m msgOf f kw w = .raised (.deprecationWarning bad) w') := by
  have h := warnMany_touches_only_the_warning_log ((obsoleteKeys m kw).map msgOf) w
  unfold runKw
  rcases hw : warnMany w ((obsoleteKeys m kw).map msgOf) with ⟨b, w'⟩
  rw [hw] at h
  refine ⟨w', h.1, h.2.1, h.2.2, ?_⟩
  cases b with
  | none => exact Or.inl rfl
  | some bad => exact Or.inr ⟨bad, rfl⟩

/-- calls written with current keywords only emit nothing at all -/
theorem kw_current_names_silent {σ ρ V : Type} (m : KwMap) (msgOf : NameId → MsgId)
    (f : List (NameId × V) → World σ → Res σ ρ) (kw : List (NameId × V)) (w : World σ)
    (hnot : ∀ p ∈ kw, mapGet m p.1 = none) (hn : (kw.map (·.1)).Nodup) :
    runKw m msgOf f kw w = f kw w := by
  have hk : obsoleteKeys m kw = [] := by
    induction kw with
    | nil => rfl
    | cons p t ih =>
      obtain ⟨k, v⟩ := p
      have := hnot (k, v) List.mem_cons_self
      simp only at this
      simp only [obsoleteKeys, this]
      exact ih (fun q hq => hnot q (List.mem_cons_of_mem _ hq)) (List.nodup_cons.mp hn).2
  simp [runKw, hk, warnMany, rename_new_is_identity m kw hnot hn]

/-- a user who silenced DeprecationWarning, and the state before the call -/
def w₀ : World Nat := ⟨[⟨.ignore, true⟩], .default, [], [], 0⟩

/-- **A warning helper that forces the display is observable** (the negation of "adds nothing but
the warning" for that shape): the filter list is changed and the user's `ignore` is overridden. -/
theorem forced_display_is_observable :
    (warn w₀ 5).2.filters = w₀.filters ∧ (warn w₀ 5).2.shown = [] ∧
    (warnForced w₀ 5).2.filters ≠ w₀.filters ∧ (warnForced w₀ 5).2.shown = [5] := by
  decide

example : firstAction w₀.filters w₀.defaultAction = .ignore := by decide
example : firstAction [⟨.ignore, false⟩, ⟨.error, true⟩] .default = .error := by decide
example : (warn (⟨[], .default, [], [], 0⟩ : World Nat) 5).2.shown = [5] ∧
    (warn (warn (⟨[], .default, [], [], 0⟩ : World Nat) 5).2 5).2.shown = [5] ∧
    (warn (warn (⟨[⟨.always, true⟩], .default, [], [], 0⟩ : World Nat) 5).2 5).2.shown = [5, 5] := by decide
example : obsoleteKeys [(7, some 8), (9, none)] [(7, "a"), (3, "b"), (9, "c")] = [7, 9] := by decide
example : foundInMro H₃ 2 1 10 = true := by decide

/-! ### the argument dimension -/

/-- **The old name accepts exactly the calls the replacement RESOLVED ON THE RECEIVER accepts**
(same positional count, same keyword names - whatever the signatures of the function objects,
including overrides that widen, narrow or reorder the signature of the base replacement). -/
theorem alias_accepts_iff_resolved_accepts (sigOf : ImplId → Sig) (H : Hier) (c : ClassId)
    (newName : NameId) (captured : ImplId) (npos : Nat) (kws : List NameId)
    (h : foundInMro H c newName captured = true) :
    aliasAccepts sigOf H c newName captured npos kws = newAccepts sigOf H c newName npos kws := by
  unfold aliasAccepts newAccepts
  rw [(dynamic_sound H c newName captured h).1]

/-- signatures for `H₃`: Base.get_value(self, m) - Mid.get_value(self, m=None) widens it -/
def sig₃ : ImplId → Sig
  | 11 => ⟨[(7, true)], false, false⟩
  | 13 => ⟨[(8, true), (7, true)], false, false⟩
  | _ => ⟨[(7, false)], false, false⟩

/-- **A wrapper that binds the arguments to the CAPTURED signature first is wrong**: on the leaf
of `H₃` the call without argument is accepted by the new name (Mid's wider signature) and by the
code's wrapper, refused by the pre-check; and a narrower call is refused identically. -/
theorem precheck_on_captured_signature_is_wrong :
    newAccepts sig₃ H₃ 2 1 0 [] = true ∧ aliasAccepts sig₃ H₃ 2 1 10 0 [] = true ∧
    precheckAccepts sig₃ H₃ 2 1 10 0 [] = false ∧
    newAccepts sig₃ H₃ 0 1 0 [] = false ∧ aliasAccepts sig₃ H₃ 0 1 10 0 [] = false := by decide

example : sigAccepts ⟨[(1, false), (2, true)], false, false⟩ 1 [2] = true ∧
    sigAccepts ⟨[(1, false), (2, true)], false, false⟩ 0 [2] = false ∧
    sigAccepts ⟨[(1, false), (2, true)], false, false⟩ 2 [2] = false ∧
    sigAccepts ⟨[(1, false), (2, true)], false, true⟩ 1 [9] = true ∧
    sigAccepts ⟨[(1, false)], true, false⟩ 3 [] = true := by decide

/-! ### non-vacuity: a base class with the alias, a subclass overriding the replacement, a
sibling that does not, and a class where the replacement was rebound after the capture -/

/-- names: 1 = get_value, 2 = getValue; functions: 10 = Base.get_value, 11 = Sub.get_value,
20 = the wrapper, 12 = a later rebinding of Base2.get_value -/
def H₀ : Hier :=
  [⟨0, [0], [(1, 10), (2, 20)]⟩,          -- Base
   ⟨1, [1, 0], [(1, 11)]⟩,                 -- Sub(Base) overrides get_value
   ⟨2, [2, 0], []⟩,                        -- Sib(Base)
   ⟨3, [3], [(1, 12), (2, 20)]⟩]           -- Base2: get_value rebound after the decoration

example : foundInMro H₀ 1 1 10 = true := by decide
example : aliasCall H₀ 1 1 10 = some 11 ∧ aliasCaptured H₀ 1 1 10 = some 10 ∧ callNew H₀ 1 1 = some 11 := by
  decide
example : aliasCall H₀ 2 1 10 = some 10 ∧ callNew H₀ 2 1 = some 10 := by decide
/-- the remaining case where the repaired wrapper is wrong: captured function not in the mro -/
example : foundInMro H₀ 3 1 10 = false ∧ aliasCall H₀ 3 1 10 = some 10 ∧ callNew H₀ 3 1 = some 12 := by
  decide
example : checkAliases (H₀.take 3) [⟨0, 2, 20, 1, 1, 10, false, false⟩] [] = true := by decide
/-- the table check refuses the class whose replacement was rebound after the capture -/
example : checkAliases H₀ [⟨0, 2, 20, 1, 1, 10, false, false⟩] [] = false := by decide

example : (renameKwargs [(7, some 8), (9, none)] [(7, "a"), (3, "b"), (9, "c")]) = ([(8, "a"), (3, "b")], 2) := by
  decide
example : Entry.ok [(7, some 8)] (⟨some 7, 8, "a"⟩ : Entry String) := by
  unfold Entry.ok; decide

end C20
