/-
C20 — every deprecated name behaves exactly like the function it points users to.
Property theorems only (model: Model/Dispatch.lean, lemmas: Proofs/Dispatch.lean; the table
regenerated from the live package and its `decide` obligations are in Generated/Aliases.lean).

`H` ranges over *all* class hierarchies (any classes, any linearisations, any `__dict__`s),
`c` over all receiver classes, `captured` over all function objects: nothing below is proved
by enumeration.  "Which function object runs" is the whole observable of the wrapper: both of
its branches pass the positional and keyword arguments on unchanged.
-/
import Model.Dispatch
import Proofs.Dispatch

open Disp

namespace C20

/-- **The repaired wrapper is the call of the new name on the receiver, for all
hierarchies** — including receivers whose class (or any class before the defining one in the
mro) redefines the replacement: whenever the captured function is found in the receiver's mro
the alias runs exactly what `receiver.new_name(...)` runs, and that attribute exists. -/
theorem dynamic_sound (H : Hier) (c : ClassId) (newName : NameId) (captured : ImplId)
    (h : foundInMro H c newName captured = true) :
    aliasCall H c newName captured = callNew H c newName ∧ callNew H c newName ≠ none := by
  refine ⟨by simp [aliasCall, h, callNew], ?_⟩
  exact foundAlong_lookup H newName captured _ h

/-- **Every subclass, present or future**: if the class `d` that holds the alias also holds the
captured replacement under the new name (what `aliases_ok` checks for every definition of the
package), then on a receiver of *any* class `c` having `d` in its mro - whatever `c` and the
classes between them define or redefine - the alias runs exactly what the new name runs. -/
theorem inherited_alias_sound (H : Hier) (c d : ClassId) (newName : NameId) (captured : ImplId)
    (hd : classGet H d newName = some captured) (hmro : d ∈ mroOf H c) :
    aliasCall H c newName captured = callNew H c newName ∧ callNew H c newName ≠ none :=
  dynamic_sound H c newName captured (foundAlong_of_mem H newName captured d hd _ hmro)

/-- **Exact condition for the repaired wrapper**: it agrees with the new name iff the captured
function is found in the receiver's mro, or the new name resolves to the captured function
anyway. -/
theorem wrapper_sound_iff (H : Hier) (c : ClassId) (newName : NameId) (captured : ImplId) :
    aliasCall H c newName captured = callNew H c newName ↔
      (foundInMro H c newName captured = true ∨ resolve H c newName = some captured) := by
  unfold aliasCall callNew
  cases hf : foundInMro H c newName captured with
  | true => simp
  | false =>
    simp only [Bool.false_eq_true, if_false, false_or]
    exact ⟨fun h => h.symm, fun h => h.symm⟩

/-- **Exact condition for the old captured-call semantics** (the wrapper before the repair):
right iff the new name, looked up on the receiver, is the captured function itself. -/
theorem captured_sound_iff (H : Hier) (c : ClassId) (newName : NameId) (captured : ImplId) :
    aliasCaptured H c newName captured = callNew H c newName ↔
      resolve H c newName = some captured := by
  unfold aliasCaptured callNew
  exact ⟨fun h => h.symm, fun h => h.symm⟩

/-- **When exactly the old semantics differs**, given the captured function is somewhere in
the receiver's mro: iff the first class of the mro that defines the new name maps it to
another function (an override standing before the class that holds the captured one). -/
theorem captured_differs_iff_overridden (H : Hier) (c : ClassId) (newName : NameId)
    (captured : ImplId) (hf : foundInMro H c newName captured = true) :
    aliasCaptured H c newName captured ≠ callNew H c newName ↔
      ∃ pre k post other, mroOf H c = pre ++ k :: post ∧
        (∀ p ∈ pre, classGet H p newName = none) ∧ classGet H k newName = some other ∧
        other ≠ captured := by
  have hne := foundAlong_lookup H newName captured _ hf
  unfold aliasCaptured callNew resolve
  constructor
  · intro h
    cases hr : lookupAlong H newName (mroOf H c) with
    | none => exact absurd hr hne
    | some other =>
      obtain ⟨pre, k, post, h1, h2, h3⟩ := (lookupAlong_eq_some H newName other _).mp hr
      refine ⟨pre, k, post, other, h1, h2, h3, ?_⟩
      intro e
      apply h
      rw [hr, e]
  · rintro ⟨pre, k, post, other, h1, h2, h3, h4⟩ h
    have := (lookupAlong_eq_some H newName other _).mpr ⟨pre, k, post, h1, h2, h3⟩
    rw [this] at h
    cases h
    exact h4 rfl

/-- **A subclass that redefines the replacement and inherits the alias** gets its own
implementation through the alias (the old wrapper ran the base implementation). -/
theorem subclass_override_honoured (H : Hier) (c : ClassId) (rest : List ClassId)
    (newName : NameId) (captured own : ImplId) (hmro : mroOf H c = c :: rest)
    (hown : classGet H c newName = some own)
    (hf : foundInMro H c newName captured = true) :
    aliasCall H c newName captured = some own ∧
      aliasCaptured H c newName captured = some captured := by
  refine ⟨?_, rfl⟩
  simp [aliasCall, hf, resolve, hmro, lookupAlong, hown]

/-- the repair changes nothing where the old semantics was right -/
theorem repaired_agrees_when_not_overridden (H : Hier) (c : ClassId) (newName : NameId)
    (captured : ImplId) (h : resolve H c newName = some captured) :
    aliasCall H c newName captured = aliasCaptured H c newName captured := by
  unfold aliasCall aliasCaptured
  split
  · exact h
  · rfl

/-- **Keyword renaming**: writing some keyword arguments under their obsolete spelling gives
the decorated function exactly the keyword arguments written under the current names, in the
same order, with one warning per obsolete spelling; writing them under the current names
changes nothing and warns about nothing.  (`Entry.ok`: an obsolete spelling is mapped to the
key; hypothesis `Nodup`: the call does not give the same parameter twice.) -/
theorem rename_old_equals_new {V : Type} (m : KwMap) (es : List (Entry V)) (hok : ∀ e ∈ es, e.ok m)
    (hn : (es.map (·.key)).Nodup) :
    renameKwargs m (es.map Entry.written) = (es.map Entry.current, obsoleteCount es) := by
  have := renameLoop_entries m es [] 0 hok (by simpa [keysOf] using hn)
  simpa [renameKwargs] using this

theorem rename_new_is_identity {V : Type} (m : KwMap) (kw : List (NameId × V))
    (hnot : ∀ p ∈ kw, mapGet m p.1 = none) (hn : (kw.map (·.1)).Nodup) :
    renameKwargs m kw = (kw, 0) := by
  let es : List (Entry V) := kw.map fun p => ⟨none, p.1, p.2⟩
  have h1 : es.map Entry.written = kw := by
    simp [es, Entry.written, List.map_map, Function.comp_def]
  have h2 : es.map Entry.current = kw := by
    simp [es, Entry.current, List.map_map, Function.comp_def]
  have h3' : ∀ l : List (NameId × V),
      obsoleteCount (l.map fun p => (⟨none, p.1, p.2⟩ : Entry V)) = 0 := by
    intro l
    induction l with
    | nil => rfl
    | cons p t ih => simp [obsoleteCount, ih]
  have h3 : obsoleteCount es = 0 := h3' kw
  have hok : ∀ e ∈ es, e.ok m := by
    intro e he
    simp only [es, List.mem_map] at he
    obtain ⟨p, hp, rfl⟩ := he
    exact hnot p hp
  have hk : (es.map (·.key)).Nodup := by
    simpa [es, List.map_map, Function.comp_def] using hn
  have := rename_old_equals_new m es hok hk
  rw [h1, h2, h3] at this
  exact this

/-- an obsolete keyword whose target is `None` is dropped (with a warning) -/
theorem rename_ignored {V : Type} (m : KwMap) (o : NameId) (v : V) (h : mapGet m o = some none) :
    renameKwargs m [(o, v)] = ([], 1) := by
  simp [renameKwargs, renameLoop, h]

/-- **Lifting the generated table**: if the table check succeeds, then for every alias
definition that is not a listed known finding — (1) the warning names the function that is
actually called and that name, looked up where the alias lives, is that function; (2) on every
class of the table that exposes the alias as a method, the alias runs exactly what the new name
runs on that receiver, and the new name exists there. -/
theorem table_sound (H : Hier) (al : List Alias) (bad : List (ClassId × NameId))
    (hchk : checkAliases H al bad = true) (a : Alias) (ha : a ∈ al)
    (hgood : isKnownBad bad a.owner a.oldName = false) :
    (a.newName = a.capturedName ∧ classGet H a.owner a.newName = some a.captured) ∧
    ∀ c ∈ H, exposes H c a = true → a.isModule = false → a.isStatic = false →
      aliasCall H c.id a.newName a.captured = callNew H c.id a.newName ∧
        callNew H c.id a.newName ≠ none := by
  unfold checkAliases at hchk
  have h1 := List.all_eq_true.mp hchk a ha
  simp only [hgood, Bool.false_or, Bool.and_eq_true] at h1
  obtain ⟨hdef, hall⟩ := h1
  constructor
  · simpa [aliasDefOK] using hdef
  · intro c hc hexp hm hs
    have := List.all_eq_true.mp hall c hc
    simp only [hexp, Bool.not_true, Bool.false_or, slotOK, hm, hs] at this
    exact dynamic_sound H c.id a.newName a.captured this

/-! ### non-vacuity: a base class with the alias, a subclass overriding the replacement, a
sibling that does not, and a class where the replacement was rebound after the capture -/

/-- names: 1 = get_value, 2 = getValue; functions: 10 = Base.get_value, 11 = Sub.get_value,
20 = the wrapper, 12 = a later rebinding of Base2.get_value -/
def H₀ : Hier :=
  [⟨0, [0], [(1, 10), (2, 20)]⟩,          -- Base
   ⟨1, [1, 0], [(1, 11)]⟩,                 -- Sub(Base) overrides get_value
   ⟨2, [2, 0], []⟩,                        -- Sib(Base)
   ⟨3, [3], [(1, 12), (2, 20)]⟩]           -- Base2: get_value rebound after the decoration

example : foundInMro H₀ 1 1 10 = true := by decide
example : aliasCall H₀ 1 1 10 = some 11 ∧ aliasCaptured H₀ 1 1 10 = some 10 ∧ callNew H₀ 1 1 = some 11 := by
  decide
example : aliasCall H₀ 2 1 10 = some 10 ∧ callNew H₀ 2 1 = some 10 := by decide
/-- the remaining case where the repaired wrapper is wrong: captured function not in the mro -/
example : foundInMro H₀ 3 1 10 = false ∧ aliasCall H₀ 3 1 10 = some 10 ∧ callNew H₀ 3 1 = some 12 := by
  decide
example : checkAliases (H₀.take 3) [⟨0, 2, 20, 1, 1, 10, false, false⟩] [] = true := by decide
/-- the table check refuses the class whose replacement was rebound after the capture -/
example : checkAliases H₀ [⟨0, 2, 20, 1, 1, 10, false, false⟩] [] = false := by decide

example : (renameKwargs [(7, some 8), (9, none)] [(7, "a"), (3, "b"), (9, "c")]) = ([(8, "a"), (3, "b")], 2) := by
  decide
example : Entry.ok [(7, some 8)] (⟨some 7, 8, "a"⟩ : Entry String) := by
  unfold Entry.ok; decide

end C20
